#!/bin/bash
# Offline setup: contract libraries beside the repository's interpreter (from the local wheelhouse only).
HERE="$(cd "$(dirname "${BASH_SOURCE[0]}")" && pwd)"
mkdir -p "$HERE/.deps"
if [ ! -d "$HERE/.deps/icontract" ]; then
  PIP_NO_INDEX=1 /venv/bin/python -m pip install --quiet --no-index --find-links /opt/veriftools/wheels \
     --target "$HERE/.deps" icontract deal 2>&1 | tail -2
  # /venv already provides typing_extensions; never shadow what mypy imports
  rm -rf "$HERE/.deps"/typing_extensions* 
fi
/venv/bin/python -c "import sys; sys.path.insert(0,'$HERE/.deps'); import icontract; print('icontract', icontract.__version__)"
