"""Type terms: the annotation grammar of C05, its Python rendering, and the reference translation.

A term is a nested tuple:
    ("int",) ("str",) ("bool",) ("float",) ("Any",) ("None",)
    ("cls", name)                 class of the package (imports are the generator's business)
    ("enum", name)  ("tvar", name)
    ("generic", name, [args])     user generic class  Box[int]
    ("list", T) ("List", T) ("Sequence", T) ("Collection", T) ("set", T) ("Set", T)
    ("dict", K, V) ("Dict", K, V) ("Mapping", K, V)
    ("tuple", [T...])
    ("opt", T)  ("ornone", T)  ("union", [T...]) ("pipe", [T...])
    ("lit", [python literal values])
    ("callable", [T...], R)
    ("barelist",) ("baredict",)

The *normal form* used for comparison is ``(frozenset(alternatives), nullable)`` where an alternative is
    ("named", name, (NF...)) | ("lit", typename, value) | ("callable", (NF...), (NF...)) | ("unknown",)
so that ``Int?``, ``union<Int, Nothing?>`` and ``literal<1, null>`` vs ``union<literal<1>, Nothing?>`` compare by
meaning, not spelling.  This module is written from the property statement, not from the tool.
"""

from __future__ import annotations

from . import sds

PRIMS = {"int": "Int", "str": "String", "bool": "Boolean", "float": "Float"}
TYPING_NAMES = {
    "List": "List",
    "Sequence": "Sequence",
    "Collection": "Collection",
    "Set": "Set",
    "Dict": "Dict",
    "Mapping": "Mapping",
}


def py(term) -> str:
    """Python source of the annotation."""
    k = term[0]
    if k in PRIMS or k in ("Any", "None"):
        return k
    if k in ("cls", "enum", "tvar"):
        return term[1]
    if k == "generic":
        return f"{term[1]}[{', '.join(py(a) for a in term[2])}]"
    if k in ("list", "set", "List", "Sequence", "Collection", "Set"):
        return f"{k}[{py(term[1])}]"
    if k in ("dict", "Dict", "Mapping"):
        return f"{k}[{py(term[1])}, {py(term[2])}]"
    if k == "tuple":
        if not term[1]:
            return "tuple[()]"  # the empty tuple type
        return f"tuple[{', '.join(py(a) for a in term[1])}]"
    if k == "opt":
        return f"Optional[{py(term[1])}]"
    if k == "ornone":
        return f"{py(term[1])} | None"
    if k == "union":
        return f"Union[{', '.join(py(a) for a in term[1])}]"
    if k == "pipe":
        return " | ".join(py(a) for a in term[1])
    if k == "lit":
        return f"Literal[{', '.join(repr(v) for v in term[1])}]"
    if k == "callable":
        return f"Callable[[{', '.join(py(a) for a in term[1])}], {py(term[2])}]"
    if k == "barelist":
        return "list"
    if k == "baredict":
        return "dict"
    raise ValueError(term)


def typing_imports(term, acc: set | None = None) -> set:
    """Names that must be imported from typing for this term."""
    acc = acc if acc is not None else set()
    k = term[0]
    if k == "Any":
        acc.add("Any")
    elif k in TYPING_NAMES:
        acc.add(k)
    elif k == "opt":
        acc.add("Optional")
    elif k == "union":
        acc.add("Union")
    elif k == "lit":
        acc.add("Literal")
    elif k == "callable":
        acc.add("Callable")
    for sub in term[1:]:
        if isinstance(sub, tuple):
            typing_imports(sub, acc)
        elif isinstance(sub, list):
            for s in sub:
                if isinstance(s, tuple):
                    typing_imports(s, acc)
    return acc


def refs(term, acc: list | None = None) -> list:
    """(kind, name) of every class/enum/generic/tvar referenced."""
    acc = acc if acc is not None else []
    k = term[0]
    if k in ("cls", "enum", "tvar", "generic"):
        acc.append((k, term[1]))
    for sub in term[1:]:
        if isinstance(sub, tuple):
            refs(sub, acc)
        elif isinstance(sub, list):
            for s in sub:
                if isinstance(s, tuple):
                    refs(s, acc)
    return acc


def depth(term) -> int:
    d = 0
    for sub in term[1:]:
        if isinstance(sub, tuple):
            d = max(d, depth(sub))
        elif isinstance(sub, list):
            for s in sub:
                if isinstance(s, tuple):
                    d = max(d, depth(s))
    return d + 1


def signature(term) -> str:
    """Constructor skeleton (leaf identities kept, literal values collapsed to their kinds)."""
    k = term[0]
    if k == "lit":
        return "lit[" + ",".join(sorted({type(v).__name__ for v in term[1]})) + "]"
    if k in ("cls", "enum", "tvar"):
        return k
    parts = []
    for sub in term[1:]:
        if isinstance(sub, tuple):
            parts.append(signature(sub))
        elif isinstance(sub, list):
            parts.append("[" + ",".join(signature(s) if isinstance(s, tuple) else str(s) for s in sub) + "]")
    return k + ("(" + ",".join(parts) + ")" if parts else "")


# ------------------------------------------------------------------------------------------ reference NF

ANY = (frozenset([("named", "Any", ())]), False)


def _named(name, *args):
    return (frozenset([("named", name, tuple(args))]), False)


def _lit(v):
    if isinstance(v, bool):
        return ("lit", "bool", v)
    if isinstance(v, int):
        return ("lit", "int", v)
    if isinstance(v, float):
        return ("lit", "float", v)
    if isinstance(v, str):
        return ("lit", "str", v)
    raise ValueError(v)


def _merge(nfs):
    alts = set()
    nullable = False
    for a, n in nfs:
        alts |= a
        nullable = nullable or n
    return (frozenset(alts), nullable)


def ref_nf(term, rename=lambda kind, name: name):
    """Reference translation of a Python annotation term (the documented structural mapping)."""
    k = term[0]
    if k in PRIMS:
        return _named(PRIMS[k])
    if k == "Any":
        return ANY
    if k == "None":
        return (frozenset(), True)
    if k in ("cls", "enum", "tvar"):
        return _named(rename(k, term[1]))
    if k == "generic":
        return _named(rename(k, term[1]), *[ref_nf(a, rename) for a in term[2]])
    if k in ("list", "List", "Sequence", "Collection"):
        return _named("List", ref_nf(term[1], rename))
    if k in ("set", "Set"):
        return _named("Set", ref_nf(term[1], rename))
    if k in ("dict", "Dict", "Mapping"):
        return _named("Map", ref_nf(term[1], rename), ref_nf(term[2], rename))
    if k == "tuple":
        return _named("Tuple", *[ref_nf(a, rename) for a in term[1]])
    if k in ("opt", "ornone"):
        a, _ = ref_nf(term[1], rename)
        return (a, True)
    if k in ("union", "pipe"):
        return _merge(ref_nf(a, rename) for a in term[1])
    if k == "lit":
        alts = set()
        nullable = False
        for v in term[1]:
            if v is None:
                nullable = True
            else:
                alts.add(_lit(v))
        return (frozenset(alts), nullable)
    if k == "callable":
        params = tuple(ref_nf(a, rename) for a in term[1])
        r = term[2]
        if r[0] == "None":
            results = ()
        elif r[0] == "tuple":
            results = tuple(ref_nf(a, rename) for a in r[1])
        else:
            results = (ref_nf(r, rename),)
        return (frozenset([("callable", params, results)]), False)
    if k == "barelist":
        return _named("List", ANY)
    if k == "baredict":
        return _named("Map", ANY, ANY)
    raise ValueError(term)


# ------------------------------------------------------------------------------------------ parsed stub type -> NF


def stub_nf(t: sds.Type | None):
    """Normal form of a type parsed from a stub; ``None`` (no type written) is returned as None."""
    if t is None:
        return None
    if t.kind == "unknown":
        return (frozenset([("unknown",)]), False)
    if t.kind == "named":
        if t.name == "Nothing" and not t.args:
            return (frozenset(), True) if t.nullable else (frozenset([("named", "Nothing", ())]), False)
        alt = ("named", t.name, tuple(stub_nf(a) for a in t.args))
        return (frozenset([alt]), t.nullable)
    if t.kind == "union":
        return _merge(stub_nf(a) for a in t.args)
    if t.kind == "literal":
        alts = set()
        nullable = False
        for lit in t.literals:
            val, ty = sds.decode_literal(lit)
            if ty == "none":
                nullable = True
            else:
                alts.add(("lit", ty, val))
        return (frozenset(alts), nullable)
    if t.kind == "callable":
        params = tuple(stub_nf(p.type) for p in t.params)
        results = tuple(stub_nf(r.type) for r in t.results)
        return (frozenset([("callable", params, results)]), False)
    raise ValueError(t.kind)


def show_nf(nf) -> str:
    if nf is None:
        return "<no type>"
    alts, nullable = nf
    parts = []
    for a in sorted(alts, key=repr):
        if a[0] == "named":
            parts.append(a[1] + ("<" + ", ".join(show_nf(x) for x in a[2]) + ">" if a[2] else ""))
        elif a[0] == "lit":
            parts.append(f"lit:{a[1]}:{a[2]!r}")
        elif a[0] == "callable":
            parts.append("(" + ", ".join(show_nf(x) for x in a[1]) + ")->(" + ", ".join(show_nf(x) for x in a[2]) + ")")
        else:
            parts.append(a[0])
    s = " | ".join(parts) if parts else "Nothing"
    return s + ("?" if nullable else "")


KINDS = set(PRIMS) | {
    "Any", "None", "cls", "enum", "tvar", "generic", "list", "List", "Sequence", "Collection", "set", "Set",
    "dict", "Dict", "Mapping", "tuple", "opt", "ornone", "union", "pipe", "lit", "callable", "barelist", "baredict",
}


def from_json(x):
    """Terms stored in JSON (lists) -> tuples."""
    if isinstance(x, (list, tuple)) and x and isinstance(x[0], str) and x[0] in KINDS:
        k = x[0]
        if k == "lit":
            return (k, list(x[1]))
        if k in ("cls", "enum", "tvar"):
            return (k, x[1])
        if k == "generic":
            return (k, x[1], [from_json(a) for a in x[2]])
        rest = []
        for s in x[1:]:
            if isinstance(s, (list, tuple)) and (not s or isinstance(s[0], (list, tuple))):
                rest.append([from_json(y) for y in s])
            else:
                rest.append(from_json(s))
        return (k, *rest)
    return x
