"""Minimal packages (as ground-truth models) for recorded findings: each exhibits exactly one mechanism."""

from __future__ import annotations

from . import pkggen as pg


def private_enum() -> pg.Pkg:
    """A private enum and an enum in a private module: both are emitted (no publicity test for enums)."""
    pkg = pg.Pkg()
    pub = pg.Mod(("pk",), "shapes", decls=[pg.En("_HiddenShade", ["CRIMSONX", "AZUREX"]), pg.Fn("visiblefn")])
    priv = pg.Mod(("pk",), "_internalmod", decls=[pg.En("ShadeInPrivateModule", ["OCHREX"]), pg.Fn("helperfn")])
    pkg.modules += [pub, priv]
    return pkg


def rel_ancestor_reexport() -> pg.Pkg:
    """A function of a private module re-exported by a *relative* import in a non-parent (ancestor) __init__."""
    pkg = pg.Pkg()
    m = pg.Mod(("pk", "corepart"), "_hiddenmod", decls=[pg.Fn("shownfunction"), pg.Cls("ShownClass", methods=[pg.Fn("shownmethod", role="inst")])])
    other = pg.Mod(("pk",), "plainmod", decls=[pg.Fn("plainfunction")])
    pkg.modules += [m, other]
    pkg.inits[("pk",)] = [pg.Reexport("name", "pk.corepart._hiddenmod", "shownfunction", None, "rel"), pg.Reexport("name", "pk.corepart._hiddenmod", "ShownClass", None, "rel")]
    return pkg


def nested_enum() -> pg.Pkg:
    pkg = pg.Pkg()
    c = pg.Cls("HolderOfEnum", nested=[pg.En("InnerShade", ["UMBERX", "SIENNAX"])], methods=[pg.Fn("plainmethod", role="inst")])
    pkg.modules.append(pg.Mod(("pk",), "withnested", decls=[c]))
    return pkg


def module_level_overload() -> pg.Pkg:
    pkg = pg.Pkg()
    fns = [
        pg.Fn("overloadedfn", [pg.Param("a", "int")], "int", decorators=["overload"]),
        pg.Fn("overloadedfn", [pg.Param("a", "str")], "str", decorators=["overload"]),
        pg.Fn("overloadedfn", [pg.Param("a", "int | str")], "int | str", body="return a"),
        pg.Fn("plainfn"),
    ]
    pkg.modules.append(pg.Mod(("pk",), "withoverload", imports=["from typing import overload"], decls=fns))
    return pkg


def only_init_package() -> pg.Pkg:
    pkg = pg.Pkg()
    pkg.modules.append(pg.Mod(("pk",), "plainmod", decls=[pg.Fn("plainfn")]))
    pkg.inits[("pk", "onlyinit")] = []
    pkg.extra_files["pk/onlyinit/__init__.py"] = '"""Package with nothing but an __init__."""\nVALUE = 1\n'
    return pkg


def _user(pkg: pg.Pkg, target_mod: str, cls: str) -> None:
    pkg.modules.append(pg.Mod(("pk",), "usermod", imports=[f"from {target_mod} import {cls}"], decls=[pg.Fn("consume", [pg.Param("x", cls)], cls)]))


def aliased_class_reference() -> pg.Pkg:
    pkg = pg.Pkg()
    pkg.modules.append(pg.Mod(("pk", "corepart"), "shapesmod", decls=[pg.Cls("RoundThing", methods=[pg.Fn("area", role="inst", ret="int")])]))
    pkg.inits[("pk",)] = [pg.Reexport("name", "pk.corepart.shapesmod", "RoundThing", "Circle", "abs")]
    _user(pkg, "pk.corepart.shapesmod", "RoundThing")
    return pkg


def private_class_reference() -> pg.Pkg:
    pkg = pg.Pkg()
    pkg.modules.append(pg.Mod(("pk",), "_hiddenmod", decls=[pg.Cls("ConcealedThing", methods=[pg.Fn("area", role="inst", ret="int")])]))
    _user(pkg, "pk._hiddenmod", "ConcealedThing")
    return pkg


def whole_module_reexport() -> pg.Pkg:
    """Module alias re-export of one module (class used elsewhere), star re-export of another (enum used elsewhere)."""
    pkg = pg.Pkg()
    pkg.modules.append(pg.Mod(("pk", "corepart"), "shapesmod", decls=[pg.Cls("RoundThing", methods=[pg.Fn("area", role="inst", ret="int")]), pg.Fn("helperfn")]))
    pkg.modules.append(pg.Mod(("pk", "corepart"), "shadesmod", decls=[pg.En("ShadeKind", ["UMBERX", "OCHREX"]), pg.Fn("otherfn")]))
    pkg.inits[("pk",)] = [pg.Reexport("modalias", "pk.corepart.shapesmod", None, "shapes", "abs"), pg.Reexport("star", "pk.corepart.shadesmod", None, None, "abs")]
    _user(pkg, "pk.corepart.shapesmod", "RoundThing")
    pkg.modules.append(pg.Mod(("pk",), "usermod2", imports=["from pk.corepart.shadesmod import ShadeKind"], decls=[pg.Fn("consume2", [pg.Param("x", "ShadeKind")], "None")]))
    return pkg


def moved_class_same_module_reference() -> pg.Pkg:
    pkg = pg.Pkg()
    m = pg.Mod(("pk", "corepart"), "shapesmod", decls=[pg.Cls("RoundThing", methods=[pg.Fn("area", role="inst", ret="int")]), pg.Fn("measure", [pg.Param("x", "RoundThing")], "int")])
    pkg.modules.append(m)
    pkg.inits[("pk", "corepart")] = [pg.Reexport("name", "pk.corepart.shapesmod", "RoundThing", None, "rel")]
    return pkg


def same_named_module_reexport() -> pg.Pkg:
    """Two modules called 'tools' in different packages; only one of them is re-exported as a whole module."""
    pkg = pg.Pkg()
    pkg.modules.append(pg.Mod(("pk", "alpha"), "tools", decls=[pg.Fn("alphatool"), pg.Cls("AlphaThing", methods=[pg.Fn("go", role="inst")])]))
    pkg.modules.append(pg.Mod(("pk", "beta"), "tools", decls=[pg.Fn("betatool"), pg.Cls("BetaThing", methods=[pg.Fn("run", role="inst")])]))
    pkg.inits[("pk",)] = [pg.Reexport("modalias", "pk.alpha.tools", None, "shown_tools", "abs")]
    # ... and a relative name re-export in one package is taken for a re-export of the same-named module elsewhere
    pkg.modules.append(pg.Mod(("pk", "alpha"), "shapes", decls=[pg.Cls("RoundThing", methods=[pg.Fn("area", role="inst", ret="int")])]))
    pkg.modules.append(pg.Mod(("pk", "beta"), "shapes", decls=[pg.Cls("RoundThing", methods=[pg.Fn("volume", role="inst", ret="int")])]))
    pkg.inits[("pk", "alpha")] = [pg.Reexport("name", "pk.alpha.shapes", "RoundThing", None, "rel")]
    return pkg
