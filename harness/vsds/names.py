"""names_ref: the naming conversion of C09, written independently from the property statement.

SAFE_DS convention: strip the underscores around the name, split the rest at underscores, drop empty parts,
capitalise the first character of every part except the first one (of every part for class names) and keep every
other character verbatim.  PYTHON convention: identity.  A name consisting of underscores only has no defined
conversion (nothing is left to render) and is outside the reference.
"""

from __future__ import annotations


def defined(name: str) -> bool:
    return name.strip("_") != ""


def names_ref(name: str, is_class: bool = False) -> str:
    core = name.strip("_")
    parts = [p for p in core.split("_") if p]
    if not parts:
        raise ValueError("conversion undefined for all-underscore names")
    out = []
    for i, p in enumerate(parts):
        if i == 0 and not is_class:
            out.append(p)
        else:
            out.append(p[0].upper() + p[1:])
    return "".join(out)


def path_ref(dotted: str) -> str:
    """Package path: every segment converted like a non-class name."""
    return ".".join(names_ref(seg) if defined(seg) else seg for seg in dotted.split("."))
