"""Whole-package scenarios for C01: layouts, encodings, import forms and hostile docstrings that a single module of
snippets cannot express.  (feature, files below the source root, option sets); bytes are written verbatim."""

from __future__ import annotations

ALLSTYLES = [[], ["--docstyle", "numpydoc"], ["--docstyle", "google"], ["--docstyle", "rest"], ["-nc", "--docstyle", "numpydoc", "-tsp", "docstring"]]

PACKAGE_SCENARIOS: list = [
    (
        'type:unresolved-member-annotations',
        {
            'pk/__init__.py': '',
            'pk/m.py': "import not_there as ni\nimport not_there.sub as nis\nfrom not_there import Thing\n\n\ndef f(a: ni.Type, b: 'ni.sub.Other' = None, c: list[ni.Type] = [], d: ni.Gen[int] = None, e: Thing = ni.CONST, g: nis.Deep | None = None) -> ni.sub.Other: ...\n\n\nclass C:\n    x: ni.Type\n    y: dict[str, ni.Type] = {}\n\n    def __init__(self, z: ni.Type = ni.make()) -> None:\n        self.z = z\n        self.w = ni.make()\n\n    def m(self):\n        return ni.make()\n\n    @ni.decorator\n    def deco(self, a: int) -> int: ...\n\n    @property\n    def p(self) -> ni.Type: ...\n",
        },
        [[], ['--docstyle', 'numpydoc'], ['--docstyle', 'google'], ['--docstyle', 'rest'], ['-nc', '--docstyle', 'numpydoc', '-tsp', 'docstring']],
    ),
    (
        'pkg:relative-imports',
        {
            'pk/__init__.py': 'from . import a\nfrom .a import A\nfrom .sub import *\nfrom .sub.deep import Deep as D\n',
            'pk/a.py': 'from __future__ import annotations\nfrom typing import TYPE_CHECKING\nfrom . import b\nfrom .b import B\nif TYPE_CHECKING:\n    from .sub.deep import Deep\n\n\nclass A(B):\n    def to_deep(self, d: Deep) -> b.B: ...\n',
            'pk/b.py': "from __future__ import annotations\nimport pk.a\nimport pk.sub.deep as dp\n\n\nclass B:\n    def back(self) -> 'pk.a.A': ...\n    def deep(self) -> dp.Deep: ...\n",
            'pk/sub/__init__.py': "from .deep import *\nfrom .. import b as bb\nfrom ..a import A as AA\n__all__ = ['Deep', 'helper', 'bb']\n",
            'pk/sub/deep.py': "from __future__ import annotations\nfrom ..b import B\n__all__ = ['Deep', 'helper']\n\n\nclass Deep(B): ...\n\n\ndef helper(x: Deep) -> B: ...\n\n\ndef _hidden() -> None: ...\n",
        },
        [[], ['-nc'], ['--docstyle', 'numpydoc']],
    ),
    (
        'file:encodings-and-layout',
        {
            'pk/__init__.py': '',
            'pk/bom.py': b'\xef\xbb\xbfdef bom() -> int: ...\n',
            'pk/crlf.py': b'def crlf(a: int = 1) -> int:\r\n    """Doc\r\n    more.\r\n    """\r\n    return a\r\n',
            'pk/latin.py': b'# -*- coding: latin-1 -*-\ndef latin(a: str = \'caf\xe9\') -> str:\n    """Caf\xe9."""\n    return a\n',
            'pk/tabs.py': 'class T:\n\tdef m(self) -> int:\n\t\treturn 1\n',
            'pk/empty.py': '',
            'pk/comments.py': '# only a comment\n',
            'pk/docstring_only.py': '"""Only a docstring."""\n',
            'pk/__main__.py': "print('main')\n",
            'pk/conftest.py': 'def pytest_configure(config): ...\n',
            'pk/longline.py': 'def ll(a0: int = 0, a1: int = 1, a2: int = 2, a3: int = 3, a4: int = 4, a5: int = 5, a6: int = 6, a7: int = 7, a8: int = 8, a9: int = 9, a10: int = 10, a11: int = 11, a12: int = 12, a13: int = 13, a14: int = 14, a15: int = 15, a16: int = 16, a17: int = 17, a18: int = 18, a19: int = 19, a20: int = 20, a21: int = 21, a22: int = 22, a23: int = 23, a24: int = 24, a25: int = 25, a26: int = 26, a27: int = 27, a28: int = 28, a29: int = 29, a30: int = 30, a31: int = 31, a32: int = 32, a33: int = 33, a34: int = 34, a35: int = 35, a36: int = 36, a37: int = 37, a38: int = 38, a39: int = 39, a40: int = 40, a41: int = 41, a42: int = 42, a43: int = 43, a44: int = 44, a45: int = 45, a46: int = 46, a47: int = 47, a48: int = 48, a49: int = 49, a50: int = 50, a51: int = 51, a52: int = 52, a53: int = 53, a54: int = 54, a55: int = 55, a56: int = 56, a57: int = 57, a58: int = 58, a59: int = 59, a60: int = 60, a61: int = 61, a62: int = 62, a63: int = 63, a64: int = 64, a65: int = 65, a66: int = 66, a67: int = 67, a68: int = 68, a69: int = 69, a70: int = 70, a71: int = 71, a72: int = 72, a73: int = 73, a74: int = 74, a75: int = 75, a76: int = 76, a77: int = 77, a78: int = 78, a79: int = 79, a80: int = 80, a81: int = 81, a82: int = 82, a83: int = 83, a84: int = 84, a85: int = 85, a86: int = 86, a87: int = 87, a88: int = 88, a89: int = 89, a90: int = 90, a91: int = 91, a92: int = 92, a93: int = 93, a94: int = 94, a95: int = 95, a96: int = 96, a97: int = 97, a98: int = 98, a99: int = 99, a100: int = 100, a101: int = 101, a102: int = 102, a103: int = 103, a104: int = 104, a105: int = 105, a106: int = 106, a107: int = 107, a108: int = 108, a109: int = 109, a110: int = 110, a111: int = 111, a112: int = 112, a113: int = 113, a114: int = 114, a115: int = 115, a116: int = 116, a117: int = 117, a118: int = 118, a119: int = 119, a120: int = 120, a121: int = 121, a122: int = 122, a123: int = 123, a124: int = 124, a125: int = 125, a126: int = 126, a127: int = 127, a128: int = 128, a129: int = 129, a130: int = 130, a131: int = 131, a132: int = 132, a133: int = 133, a134: int = 134, a135: int = 135, a136: int = 136, a137: int = 137, a138: int = 138, a139: int = 139, a140: int = 140, a141: int = 141, a142: int = 142, a143: int = 143, a144: int = 144, a145: int = 145, a146: int = 146, a147: int = 147, a148: int = 148, a149: int = 149, a150: int = 150, a151: int = 151, a152: int = 152, a153: int = 153, a154: int = 154, a155: int = 155, a156: int = 156, a157: int = 157, a158: int = 158, a159: int = 159, a160: int = 160, a161: int = 161, a162: int = 162, a163: int = 163, a164: int = 164, a165: int = 165, a166: int = 166, a167: int = 167, a168: int = 168, a169: int = 169, a170: int = 170, a171: int = 171, a172: int = 172, a173: int = 173, a174: int = 174, a175: int = 175, a176: int = 176, a177: int = 177, a178: int = 178, a179: int = 179, a180: int = 180, a181: int = 181, a182: int = 182, a183: int = 183, a184: int = 184, a185: int = 185, a186: int = 186, a187: int = 187, a188: int = 188, a189: int = 189, a190: int = 190, a191: int = 191, a192: int = 192, a193: int = 193, a194: int = 194, a195: int = 195, a196: int = 196, a197: int = 197, a198: int = 198, a199: int = 199, a200: int = 200, a201: int = 201, a202: int = 202, a203: int = 203, a204: int = 204, a205: int = 205, a206: int = 206, a207: int = 207, a208: int = 208, a209: int = 209, a210: int = 210, a211: int = 211, a212: int = 212, a213: int = 213, a214: int = 214, a215: int = 215, a216: int = 216, a217: int = 217, a218: int = 218, a219: int = 219, a220: int = 220, a221: int = 221, a222: int = 222, a223: int = 223, a224: int = 224, a225: int = 225, a226: int = 226, a227: int = 227, a228: int = 228, a229: int = 229, a230: int = 230, a231: int = 231, a232: int = 232, a233: int = 233, a234: int = 234, a235: int = 235, a236: int = 236, a237: int = 237, a238: int = 238, a239: int = 239, a240: int = 240, a241: int = 241, a242: int = 242, a243: int = 243, a244: int = 244, a245: int = 245, a246: int = 246, a247: int = 247, a248: int = 248, a249: int = 249, a250: int = 250, a251: int = 251, a252: int = 252, a253: int = 253, a254: int = 254, a255: int = 255, a256: int = 256, a257: int = 257, a258: int = 258, a259: int = 259, a260: int = 260, a261: int = 261, a262: int = 262, a263: int = 263, a264: int = 264, a265: int = 265, a266: int = 266, a267: int = 267, a268: int = 268, a269: int = 269, a270: int = 270, a271: int = 271, a272: int = 272, a273: int = 273, a274: int = 274, a275: int = 275, a276: int = 276, a277: int = 277, a278: int = 278, a279: int = 279, a280: int = 280, a281: int = 281, a282: int = 282, a283: int = 283, a284: int = 284, a285: int = 285, a286: int = 286, a287: int = 287, a288: int = 288, a289: int = 289, a290: int = 290, a291: int = 291, a292: int = 292, a293: int = 293, a294: int = 294, a295: int = 295, a296: int = 296, a297: int = 297, a298: int = 298, a299: int = 299) -> int: ...\n',
            'pk/formfeed.py': 'def a() -> int: ...\n\x0c\ndef b() -> int: ...\n',
            'pk/nonl.py': 'def nonl() -> int: ...',
        },
        [[], ['-nc', '--docstyle', 'numpydoc']],
    ),
    (
        'file:stub-and-namespace',
        {
            'pk/__init__.py': '',
            'pk/both.py': 'def both(a): ...\n',
            'pk/both.pyi': 'def both(a: int) -> int: ...\n',
            'pk/ns/mod.py': 'def in_namespace() -> int: ...\n',
            'pk/ns/inner/__init__.py': '',
            'pk/ns/inner/x.py': 'class X: ...\n',
            'pk/py.typed': '',
            'pk/data.json': '{}',
            'pk/script': 'not python',
            'pk/with-dash.py': 'def dash() -> int: ...\n',
            'pk/1digit.py': 'def digit() -> int: ...\n',
            'pk/class.py': 'def keyword_module() -> int: ...\n',
        },
        [[], ['-nc']],
    ),
    (
        'doc:hostile-numpydoc',
        {
            'pk/__init__.py': '',
            'pk/m.py': 'def f(a, b, c=1, *args, **kwargs):\n    """Summary.\n\n    Parameters\n    ----------\n    a : int or str\n        A.\n    b : {\'x\', \'y\'}, optional\n    c : array-like of shape (n_samples,), default=1\n    *args : tuple\n    **kwargs : dict, optional\n        Extra.\n    missing : list[int\n        Not a parameter, unbalanced.\n    d :\n        Empty type.\n\n    Returns\n    -------\n    Only a description line.\n    x : float in the range [0, 1]\n    y : callable\n    ndarray of shape (n,)\n\n    Raises\n    ------\n    ValueError\n        If bad.\n\n    Yields\n    ------\n    int\n\n    See Also\n    --------\n    other : thing\n\n    Notes\n    -----\n    .. math:: x^2\n\n    Examples\n    --------\n    >>> f(1, 2)\n    3\n    """\n\n\ndef g():\n    """\n    Parameters\n    ----------\n\n    Returns\n    -------\n    """\n\n\ndef h(a: int) -> int:\n    """Parameters\n    ----------\n    a : int, default: 3\n    a : str\n        Duplicate.\n\n    Returns\n    -------\n    int\n    int\n    """\n\n\nclass C:\n    """Class.\n\n    Attributes\n    ----------\n    x : int\n        The x.\n    nope : Optional[List[Dict[str, Union[int, None]]]]\n\n    Methods\n    -------\n    m(a)\n        Do it.\n    """\n\n    x = 1\n\n    def __init__(self, p: int = 0):\n        """Init.\n\n        Parameters\n        ----------\n        p : int in the range (-inf, 5]\n        q : float in the range [0, infinity)\n        """\n        self.p = p\n\n    def m(self, a: \'int\') -> \'tuple[int, str]\':\n        """M.\n\n        Returns\n        -------\n        first : int\n        second : str, optional\n        third : bool\n        """\n',
        },
        [['--docstyle', 'numpydoc'], ['--docstyle', 'numpydoc', '-tsp', 'docstring'], ['--docstyle', 'numpydoc', '-tsp', 'docstring', '-nc', '-tsw', 'ignore'], ['--docstyle', 'google'], ['--docstyle', 'rest']],
    ),
    (
        'doc:hostile-google',
        {
            'pk/__init__.py': '',
            'pk/m.py': 'def f(a, b, c=1, *args, **kwargs):\n    """Summary.\n\n    Args:\n        a (int or str): A.\n        b ({\'x\', \'y\'}, optional): B\n          continued oddly.\n        c (list[int): unbalanced.\n        *args: Var.\n        **kwargs (dict): Kw.\n        missing (int): not a param.\n        noparen: no type.\n        (int): no name.\n        : nothing.\n\n    Returns:\n        tuple[int, str]: Both.\n        int: Second line.\n\n    Raises:\n        ValueError: bad.\n\n    Yields:\n        int: y.\n\n    Example:\n        >>> f(1)\n\n    Attributes:\n        x (int): nope.\n\n    Todo:\n        * x\n    """\n\n\ndef g():\n    """Args:\n\n    Returns:\n    """\n\n\ndef h(a: int) -> int:\n    """H.\n\n    Args:\n      a: two-space indent.\n\n    Returns:\n      The value without type.\n    """\n\n\nclass C:\n    """C.\n\n    Attributes:\n        x (float in the range [0, 1]): X.\n        y (Literal["a", "b"]): Y.\n    """\n\n    x = 0.5\n    y = "a"\n\n    def __init__(self, p=0):\n        """Init.\n\n        Args:\n            p (int in the range (-inf, 5]): P.\n        """\n',
        },
        [['--docstyle', 'google'], ['--docstyle', 'google', '-tsp', 'docstring'], ['--docstyle', 'google', '-tsp', 'docstring', '-nc'], ['--docstyle', 'numpydoc'], ['--docstyle', 'rest']],
    ),
    (
        'doc:hostile-rest',
        {
            'pk/__init__.py': '',
            'pk/m.py': 'def f(a, b, c=1, *args, **kwargs):\n    """Summary.\n\n    :param a: A.\n    :type a: int or str\n    :param str b: B.\n    :param c: C.\n    :type c: list[int\n    :param missing: not a param.\n    :type missing: int\n    :param: nameless.\n    :type: nameless.\n    :param int: only type?\n    :param args: var.\n    :param \\*\\*kwargs: kw.\n    :returns: something.\n    :return: twice.\n    :rtype: tuple[int, str]\n    :rtype: int\n    :raises ValueError: bad.\n    :raises: nameless.\n    :var x: v.\n    :ivar y: iv.\n    :cvar z: cv.\n    :meta private:\n    :keyword k: kw.\n    :unknownfield foo: bar.\n    """\n\n\ndef g():\n    """:param:\n    :rtype:\n    """\n\n\nclass C:\n    """C.\n\n    :ivar x: X.\n    :vartype x: float in the range [0, 1]\n    :param p: ctor param in class doc.\n    :type p: int in the range (-inf, 5]\n    """\n\n    x = 0.5\n\n    def __init__(self, p=0):\n        """:param p: again.\n        :type p: {1, 2, 3}\n        """\n',
        },
        [['--docstyle', 'rest'], ['--docstyle', 'rest', '-tsp', 'docstring'], ['--docstyle', 'rest', '-tsp', 'docstring', '-nc'], ['--docstyle', 'numpydoc'], ['--docstyle', 'google']],
    ),
    (
        'init:forms',
        {
            'pk/__init__.py': "import os as _os\nfrom os import path\nfrom os.path import join as pjoin\nimport pk.a\nimport pk.a as aa\nfrom pk import a as a2\nfrom .a import (\n    A as Alpha,\n    fa,\n)\nfrom .a import _private as public_now\nfrom ._hidden import *\nfrom ._hidden import Hid as Hid2\ntry:\n    from .opt import Opt\nexcept ImportError:\n    Opt = None\nif _os.name == 'nt':\n    from .a import fa as platform_fn\n__all__ = ['Alpha', 'fa', 'Hid', *pk.a.__all__]\n__all__ += ['pjoin']\n__version__ = '1'\n\n\ndef __getattr__(name: str):\n    raise AttributeError(name)\n\n\ndef in_init(a: Alpha) -> 'Hid2': ...\n\n\nclass InInit(Alpha): ...\n",
            'pk/a.py': "__all__ = ['A', 'fa']\n\n\nclass A: ...\n\n\ndef fa(a: A) -> A: ...\n\n\ndef _private() -> int: ...\n",
            'pk/_hidden.py': 'class Hid: ...\n\n\nclass _Hid: ...\n\n\ndef hid_fn(h: Hid) -> _Hid: ...\n',
            'pk/opt.py': 'class Opt: ...\n',
        },
        [[], ['-nc'], ['--docstyle', 'numpydoc']],
    ),
    (
        'init:reexport-chains',
        {
            'pk/__init__.py': 'from .l1 import Thing, make\nfrom .l1 import l2\n',
            'pk/l1/__init__.py': 'from .l2 import Thing, make\nfrom . import l2\n',
            'pk/l1/l2/__init__.py': 'from ._impl import Thing, make\nfrom ._impl import *\n',
            'pk/l1/l2/_impl.py': "class Thing:\n    def m(self) -> 'Thing': ...\n\n\ndef make(t: Thing | None = None) -> Thing: ...\n",
            'pk/user.py': 'from pk import Thing\nfrom pk.l1 import make\nfrom pk.l1.l2 import Thing as T2\nfrom pk.l1.l2._impl import Thing as T3\n\n\ndef use(a: Thing, b: T2, c: T3) -> Thing:\n    return make(a)\n\n\nclass Sub(T3): ...\n',
        },
        [[], ['-nc']],
    ),
    (
        'func:odd-signatures',
        {
            'pk/__init__.py': '',
            'pk/m.py': "class C:\n    def no_self(): ...\n\n    def this(this, a: int) -> int: ...\n\n    def self_annotated(self: 'C', a: int) -> 'C': ...\n\n    @staticmethod\n    def st_self(self, a: int) -> int: ...\n\n    @classmethod\n    def cm_klass(klass, a: int) -> 'C': ...\n\n    def star_only(*args): ...\n\n    def kw_only_self(*, self): ...\n\n    async def am(self) -> int: ...\n\n    async def agen(self):\n        yield 1\n\n    @property\n    async def aprop(self) -> int: ...\n\n    def __private(self) -> int: ...\n\n    def _C__mangled(self) -> int: ...\n\n    def __init__(this, a=1): this.a = a\n\n\ndef self(self): ...\n\n\ndef cls(cls=None, /, *, self=None): ...\n\n\ndef many(a, /, b, *, c): ...\n\n\ndef lam(a=lambda x=1, *y, **z: (x, y, z)): ...\n\n\ndef ann_star(*args: 'int', **kwargs: 'list[int]') -> None: ...\n",
        },
        [[], ['-nc'], ['--docstyle', 'google']],
    ),
    (
        'module:statements',
        {
            'pk/__init__.py': '',
            'pk/m.py': "import sys\nfrom typing import TypeVar\nx = 1\nx += 1\ndel x\nassert sys\nglobal_var: int\na = b = c = 0\n(d, e), f = (1, 2), 3\n[g, *h] = [1, 2]\ni: list[int] = [j := 1]\nk = lambda: 0\nT = TypeVar('T')\nT2 = TypeVar('T2', bound='Later')\n\n\nclass Later: ...\n\n\nwhile False:\n    def in_while() -> int: ...\n    break\nelse:\n    def in_while_else() -> int: ...\n\ntry:\n    def in_try() -> int: ...\nexcept Exception as exc:\n    def in_except() -> int: ...\nelse:\n    def in_else() -> int: ...\nfinally:\n    def in_finally() -> int: ...\n\nmatch sys.argv:\n    case []:\n        def in_case() -> int: ...\n    case _:\n        class InCase: ...\n\nif sys.version_info < (3,):\n    class OldOnly: ...\nelif sys.platform == 'win32':\n    class WinOnly: ...\nelse:\n    class Other: ...\n\n\ndef uses(t: T2) -> T2: ...\n\n\nprint('side effect')\nraise_later = NotImplementedError\n",
        },
        [[], ['-nc']],
    ),
    (
        'type:names-defined-elsewhere',
        {
            'pk/__init__.py': 'from .ids import UserId\n',
            'pk/ids.py': "import typing\nfrom typing import NewType, TypeAlias, TypeVar\nfrom enum import Enum\n\nUserId = NewType('UserId', int)\nGroupId = typing.NewType('GroupId', str)\nVec: TypeAlias = list[float]\nShared = TypeVar('Shared')\nBound = TypeVar('Bound', bound='Base')\n\n\nclass Base: ...\n\n\nclass Color(Enum):\n    RED = 1\n\n\nAliasOfClass = Base\nAliasOfEnum = Color\n",
            'pk/users.py': "from pk.ids import UserId, GroupId, Vec, Shared, Bound, AliasOfClass, AliasOfEnum\nfrom pk import ids\n\n\ndef find(u: UserId, g: GroupId | None = None, v: Vec = [], s: Shared = None, b: Bound = None) -> UserId: ...\n\n\ndef aliased(a: AliasOfClass, e: AliasOfEnum = AliasOfEnum.RED, m: ids.UserId = ids.UserId(1)) -> ids.GroupId: ...\n\n\nclass Holder:\n    uid: UserId\n    gid: ids.GroupId\n    vec: Vec = []\n\n    def __init__(self, uid: UserId) -> None:\n        self.uid = uid\n\n\nclass Child(AliasOfClass): ...\n",
            'pk/more_users.py': "from pk.ids import UserId\nfrom pk.users import Holder\n\n\ndef again(u: UserId, h: Holder) -> list[UserId]: ...\n",
        },
        [[], ['-nc'], ['--docstyle', 'numpydoc']],
    ),
    (
        'type:classes-named-like-collections',
        {
            'pk/__init__.py': '',
            'pk/shadows.py': "class Mapping:\n    pass\n\n\nclass Sequence:\n    pass\n\n\nclass Collection:\n    pass\n\n\nclass List:\n    pass\n\n\nclass Set:\n    pass\n\n\nclass Dict:\n    pass\n\n\nclass Tuple:\n    pass\n\n\nclass Optional:\n    pass\n\n\nclass Callable:\n    pass\n\n\nclass Literal:\n    pass\n\n\nclass Union:\n    pass\n\n\nclass Any:\n    pass\n\n\nclass Final:\n    pass\n\n\nclass Type:\n    pass\n\n\ndef uses(a: Mapping, b: Sequence, c: Collection, d: List, e: Set, f: Dict, g: Tuple, h: Optional, i: Callable, j: Literal, k: Union, l: Any, m: Final, n: Type) -> Mapping: ...\n\n\nclass Holder:\n    a: Mapping\n    b: Sequence = Sequence()\n    c: list[Mapping] = []\n\n    def __init__(self, d: Dict, e: Set = Set()) -> None:\n        self.d = d\n        self.e: Set = e\n",
            'pk/lower.py': "class dict:\n    pass\n\n\nclass list:\n    pass\n\n\nclass set:\n    pass\n\n\nclass tuple:\n    pass\n\n\nclass type:\n    pass\n\n\ndef uses(a: dict, b: list, c: set, d: tuple, e: type) -> dict: ...\n",
            'pk/users.py': "from pk.shadows import Mapping, Sequence, List\nfrom pk import lower\n\n\ndef far(a: Mapping, b: Sequence, c: List, d: lower.dict, e: 'lower.list' = None) -> lower.set: ...\n",
        },
        [[], ['-nc'], ['--docstyle', 'numpydoc']],
    ),
    (
        'init:same-name-reexported-twice',
        {
            'pk/__init__.py': "from pk.sub._a import Table as TableA\nfrom pk.sub._b import Table as TableB\nfrom pk.sub._a import load as load_a\nfrom pk.sub._b import load as load_b\nfrom pk.sub._c import Table, load\n__all__ = ['TableA', 'TableB', 'load_a', 'load_b', 'Table', 'load']\n",
            'pk/sub/__init__.py': "",
            'pk/sub/_a.py': "class Table:\n    def rows_a(self) -> int: ...\n\n\ndef load(path: str) -> Table: ...\n",
            'pk/sub/_b.py': "class Table:\n    def rows_b(self) -> int: ...\n\n\ndef load(path: str, strict: bool = False) -> Table: ...\n",
            'pk/sub/_c.py': "class Table:\n    def rows_c(self) -> int: ...\n\n\ndef load() -> Table: ...\n",
            'pk/readers/__init__.py': "from ._csv import load\nfrom ._csv import Reader\n",
            'pk/readers/_csv.py': "class Reader:\n    pass\n\n\ndef load(r: Reader) -> Reader: ...\n",
            'pk/models/__init__.py': "from ._store import load\nfrom ._store import Reader\n",
            'pk/models/_store.py': "class Reader:\n    pass\n\n\ndef load(r: Reader, n: int = 0) -> Reader: ...\n",
            'pk/user.py': "from pk import TableA, TableB\nfrom pk.readers import Reader\n\n\ndef use(a: TableA, b: TableB, r: Reader) -> TableA: ...\n",
        },
        [[], ['-nc'], ['--docstyle', 'numpydoc']],
    ),
    (
        'layout:filtered-packages-that-reexport',
        {
            # packages in docs / tests directories (skipped without -tr) whose __init__ re-exports private declarations of the
            # regular code under public aliases, and regular modules that import those packages (the type checker loads them)
            'pk/__init__.py': '',
            'pk/_impl.py': "def _secret(x: int = 0) -> int:\n    return x\n\n\ndef _other_secret() -> int:\n    return 1\n\n\nclass _Hidden:\n    def run(self) -> int: ...\n",
            'pk/api.py': "from pk.docs import secret\nfrom pk.tests import checked_secret\n\n\ndef use_it(n: int = 0) -> int:\n    return secret(n) + checked_secret()\n",
            'pk/docs/__init__.py': "from pk._impl import _secret as secret\nfrom pk._impl import _Hidden as Shown\n",
            'pk/docs/guide.py': "def documented_example() -> None: ...\n",
            'pk/tests/__init__.py': "from .._impl import _other_secret as checked_secret\n",
            'pk/tests/test_api.py': "from pk.tests import checked_secret\n\n\ndef test_it() -> None:\n    assert checked_secret() == 1\n",
            'pk/sub/__init__.py': "",
            'pk/sub/core.py': "from pk.docs import secret as s\n\n\ndef deep_use() -> int:\n    return s(2)\n",
        },
        [[], ['-nc'], ['--docstyle', 'numpydoc']],
    ),
]
