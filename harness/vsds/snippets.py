"""Snippet library for C01's kitchen-sink packages: realistic declaration forms, each tagged with a feature.

Every snippet is self-contained module-level source; ``{n}`` is replaced by a unique number so that snippets can be
combined freely.  Features listed in known_findings.json are left out of the general workload and exercised by the
finding's probe instead.
"""

from __future__ import annotations

PRELUDE = '''"""Module docstring.

Some longer text about the module.
"""
from __future__ import annotations

import abc
import dataclasses
import enum
import functools
import os
import sys
import typing
from abc import ABC, abstractmethod
from collections import OrderedDict, defaultdict
from collections.abc import Callable, Iterable, Iterator, Mapping, Sequence
from dataclasses import dataclass, field
from enum import Enum, IntEnum, auto
from pathlib import Path
from typing import TYPE_CHECKING, Any, ClassVar, Final, Generic, Literal, NamedTuple, Optional, Protocol, TypedDict, TypeVar, Union, overload

if TYPE_CHECKING:
    from decimal import Decimal

T = TypeVar("T")
K = TypeVar("K", bound=int)
V = TypeVar("V", str, bytes)
T_co = TypeVar("T_co", covariant=True)
CONSTANT = 3
_PRIVATE_CONSTANT: int = 4


def _helper(x=None):
    return x


'''

# (feature, source)
SNIPPETS: list[tuple[str, str]] = [
    # ---------------------------------------------------------------- functions: parameters
    ("params:all-kinds", "def f{n}(a, b: int = 1, /, c: str = 'x', *args: int, d: float, e: bool = True, **kwargs: str) -> None:\n    pass\n"),
    ("params:defaults-calls", "def f{n}(a=_helper(), b=os.sep, c=CONSTANT, d=[1, 2], e={{'k': 1}}, f=(1, 2), g=lambda: 0, h=..., i=f'x{{1}}', j=None or 1) -> int:\n    return 1\n"),
    ("params:defaults-signed", "def f{n}(a=-1, b=+2.5, c=- -3, d=~4, e=not True, f=-CONSTANT, g=1 + 2, h=2**8, i=1j, j=b'x') -> None: ...\n"),
    ("params:only-star", "def f{n}(*, a: int, b: str = 's') -> None: ...\n"),
    ("params:only-slash", "def f{n}(a: int, b: int = 2, /) -> int:\n    return a + b\n"),
    ("params:untyped-varargs", "def f{n}(*args, **kwargs):\n    return None\n"),
    ("params:forward-ref-string", "def f{n}(a: 'C{n}', b: \"list[C{n}]\" = None) -> 'C{n}':\n    return a\n\n\nclass C{n}:\n    pass\n"),
    ("params:callable-types", "def f{n}(cb: Callable[[int, str], bool], cb2: Callable[..., Any] = print, cb3: typing.Callable[[], None] | None = None) -> Callable[[int], int]:\n    return lambda x: x\n"),
    ("params:literal-types", "def f{n}(a: Literal['x', 'y'] = 'x', b: Literal[1, 2, None] = None, c: Literal[True] = True) -> Literal['done']:\n    return 'done'\n"),
    ("params:containers", "def f{n}(a: list[int], b: dict[str, list[int]], c: set[str], d: tuple[int, ...], e: tuple[()], f: frozenset[int], g: Sequence[int], h: Mapping[str, Any], i: Iterable[str], j: Iterator[int], k: OrderedDict[str, int], l: defaultdict[str, int]) -> None: ...\n"),
    ("params:illegal-generics", "def f{n}(a: list[int, str], b: set[int, str], c: list, d: dict, e: tuple, f: set) -> None: ...\n"),
    ("params:type-of-class", "def f{n}(a: type[Path], b: type, c: 'type[C{n}]' = None) -> type[int]:\n    return int\n\n\nclass C{n}:\n    pass\n"),
    ("params:unions", "def f{n}(a: int | str | None, b: Optional[Union[int, str]], c: Union[int, None, str, None], d: None = None, e: None | None = None) -> int | None:\n    return None\n"),
    ("params:typevars", "def f{n}(a: T, b: K, c: V, d: list[T], e: dict[K, V]) -> T:\n    return a\n"),
    ("params:any-object", "def f{n}(a: Any, b: object, c: typing.Any = None, d: 'Any' = 0) -> object:\n    return a\n"),
    ("params:decimal-type-checking-import", "def f{n}(a: Decimal, b: Path = Path('.')) -> Decimal:\n    return a\n"),
    # ---------------------------------------------------------------- functions: un-annotated returns (literals only; others are separate features)
    ("return:inferred:literals", "def f{n}(a):\n    if a:\n        return 1\n    elif a is None:\n        return 'x', 2.5\n    try:\n        return True\n    except ValueError:\n        return None\n    finally:\n        pass\n"),
    ("return:inferred:cond", "def f{n}(a):\n    return 1 if a else 'two'\n"),
    ("return:inferred:call-and-attr", "def f{n}(a):\n    if a:\n        return _helper(a)\n    return a.attribute\n"),
    ("return:inferred:self", "class C{n}:\n    def chain(self):\n        return self\n\n    def other(self, x):\n        return self.chain()\n"),
    ("return:inferred:name", "def f{n}(a):\n    b = a\n    return b\n"),
    ("return:inferred:not", "def f{n}(a):\n    return not a\n"),
    ("return:inferred:binop", "def f{n}(a):\n    return a + 1\n"),
    ("return:inferred:compare", "def f{n}(a):\n    return a > 1\n"),
    ("return:inferred:boolop", "def f{n}(a):\n    return a or None\n"),
    ("return:inferred:container", "def f{n}(a):\n    if a:\n        return [1, 2]\n    if a is None:\n        return {{'k': 1}}\n    return {{1, 2}}\n"),
    ("return:inferred:comprehension", "def f{n}(a):\n    return [x for x in a]\n"),
    ("return:inferred:lambda", "def f{n}(a):\n    return lambda: a\n"),
    ("return:inferred:index", "def f{n}(a):\n    return a[0]\n"),
    ("return:inferred:fstring", "def f{n}(a):\n    return f'{{a}}!'\n"),
    ("return:inferred:bytes-complex-ellipsis", "def f{n}(a):\n    if a:\n        return b'x'\n    if a is None:\n        return 1j\n    return ...\n"),
    ("return:inferred:nested-cond", "def f{n}(a):\n    return 1 if a else (2 if a is None else 3)\n"),
    ("return:inferred:await", "async def f{n}(a):\n    return await a\n"),
    ("return:inferred:starred-tuple", "def f{n}(a):\n    return (1, *a)\n"),
    ("return:inferred:walrus", "def f{n}(a):\n    return (b := a)\n"),
    ("return:inferred:nested-function", "def f{n}(a):\n    def inner(x):\n        return x\n    return inner\n"),
    ("return:inferred:cls", "class C{n}:\n    @classmethod\n    def make(cls):\n        return cls\n"),
    ("return:inferred:tuple-of-names", "def f{n}(a, b):\n    return a, b\n"),
    ("return:inferred:generator", "def f{n}(a):\n    yield 1\n    yield from a\n    return 'done'\n"),
    # ---------------------------------------------------------------- functions: other forms
    ("func:async", "async def f{n}(a: int) -> int:\n    return a\n"),
    ("func:generator-annotated", "def f{n}(a: int) -> Iterator[int]:\n    yield a\n"),
    ("func:decorated", "def deco{n}(fn: Callable[..., T]) -> Callable[..., T]:\n    return fn\n\n\n@deco{n}\ndef f{n}(a: int) -> int:\n    return a\n\n\n@functools.lru_cache(maxsize=None)\ndef g{n}(a: int) -> int:\n    return a\n\n\n@functools.wraps(f{n})\ndef h{n}(a: int) -> int:\n    return a\n"),
    ("func:nested-and-closure", "def f{n}(a: int) -> int:\n    def inner(b: int) -> int:\n        class Local:\n            pass\n        return a + b\n    return inner(1)\n"),
    ("func:global-nonlocal", "COUNTER{n} = 0\n\n\ndef f{n}() -> int:\n    global COUNTER{n}\n    COUNTER{n} += 1\n    return COUNTER{n}\n"),
    ("func:conditional-definition", "if sys.version_info >= (3, 9):\n    def f{n}(a: int) -> int:\n        return a\nelse:\n    def f{n}(a: int) -> int:\n        return -a\n\ntry:\n    import nonexistent_module_{n} as nm{n}\nexcept ImportError:\n    nm{n} = None\n"),
    ("overload:method", "class C{n}:\n    @overload\n    def m(self, a: int) -> int: ...\n    @overload\n    def m(self, a: str) -> str: ...\n    def m(self, a: int | str) -> int | str:\n        return a\n"),
    ("overload:module-level", "@overload\ndef f{n}(a: int) -> int: ...\n@overload\ndef f{n}(a: str) -> str: ...\ndef f{n}(a: int | str) -> int | str:\n    return a\n"),
    ("func:dunder-module-level", "def __getattr__(name: str) -> Any:\n    raise AttributeError(name)\n") ,
    # ---------------------------------------------------------------- classes
    ("class:plain", "class C{n}:\n    \"\"\"Docstring of C{n}.\"\"\"\n\n    x: int = 1\n    y = 'two'\n    _z: float = 3.0\n\n    def __init__(self, a: int, b: str = 'b') -> None:\n        self.a = a\n        self.b: str = b\n        self._c = None\n\n    def method(self, p: int) -> int:\n        \"\"\"Method doc.\"\"\"\n        return p\n\n    def _private(self) -> None: ...\n\n    def __repr__(self) -> str:\n        return 'C'\n\n    def __eq__(self, other: object) -> bool:\n        return True\n\n    def __call__(self, *a: Any, **k: Any) -> Any:\n        return None\n"),
    ("class:init-assignments", "class C{n}:\n    def __init__(self, a, b: int = 0):\n        self.p, self.q = 1, 'x'\n        self.r = self.s = 0\n        self.t: list[int] = []\n        self.u = a\n        self.v = b\n        local = 1\n        self.w = local\n        self.x: Optional[int]\n        self.y += 1 if False else 0\n"),
    ("attr:subscript-target", "class C{n}:\n    d: dict = {{}}\n    d['k'] = 1\n\n    def __init__(self) -> None:\n        self.m = {{}}\n        self.m['k'] = 1\n        self.lst = [0]\n        self.lst[0] = 2\n"),
    ("attr:attribute-of-attribute", "class C{n}:\n    def __init__(self, other: Path) -> None:\n        self.other = other\n        self.other.value = 1\n"),
    ("attr:starred-target", "class C{n}:\n    first, *rest = [1, 2, 3]\n\n    def __init__(self) -> None:\n        self.a, *self.b = [1, 2, 3]\n"),
    ("attr:class-level-forms", "class C{n}:\n    a, b = 1, 'x'\n    c = d = 0.5\n    e: ClassVar[int] = 1\n    f: Final = 2\n    g: Final[str] = 'g'\n    h: 'C{n} | None' = None\n    i: list['C{n}'] = []\n    j = _helper()\n    k: int\n    l = lambda self: 1\n    m = property(lambda self: 1)\n    __slots__ = ('x',)\n"),
    ("type:bare-Final", "class C{n}:\n    f: Final = 2\n"),
    ("class:properties", "class C{n}:\n    def __init__(self) -> None:\n        self._v = 0\n\n    @property\n    def v(self) -> int:\n        \"\"\"The v.\"\"\"\n        return self._v\n\n    @v.setter\n    def v(self, value: int) -> None:\n        self._v = value\n\n    @v.deleter\n    def v(self) -> None:\n        del self._v\n\n    @functools.cached_property\n    def cached(self) -> int:\n        return 1\n\n    @property\n    def untyped(self):\n        return self._v\n"),
    ("class:several-properties-with-setters", "class C{n}:\n    @property\n    def a(self) -> int:\n        return 1\n\n    @a.setter\n    def a(self, v: int) -> None: ...\n\n    @property\n    def b(self) -> str:\n        return 'b'\n\n    @b.setter\n    def b(self, v: str) -> None: ...\n\n    @b.deleter\n    def b(self) -> None: ...\n\n\nclass P{n}(Protocol):\n    @overload\n    def m(self, a: int) -> int: ...\n    @overload\n    def m(self, a: str) -> str: ...\n    @overload\n    def n(self, a: int) -> int: ...\n    @overload\n    def n(self, a: str) -> str: ...\n"),
    ("class:static-class-methods", "class C{n}:\n    @staticmethod\n    def s(a: int, b=2) -> int:\n        return a\n\n    @classmethod\n    def c(cls, a: int) -> 'C{n}':\n        return cls()\n\n    @staticmethod\n    def s2(*args, **kwargs):\n        pass\n"),
    ("class:nested", "class C{n}:\n    class Inner:\n        class Deep:\n            z: int = 1\n\n            def go(self) -> 'C{n}.Inner.Deep':\n                return self\n\n        def make(self) -> 'C{n}.Inner':\n            return self\n\n    class _Hidden:\n        pass\n\n    def use(self, i: 'C{n}.Inner') -> Inner:\n        return i\n"),
    ("class:nested-enum", "class C{n}:\n    class Mode(Enum):\n        A = 1\n        B = 2\n\n    def mode(self) -> 'C{n}.Mode':\n        return C{n}.Mode.A\n"),
    ("class:abstract", "class C{n}(ABC):\n    @abstractmethod\n    def run(self, a: int) -> int: ...\n\n    @property\n    @abstractmethod\n    def name(self) -> str: ...\n\n\nclass D{n}(C{n}):\n    def run(self, a: int) -> int:\n        return a\n\n    @property\n    def name(self) -> str:\n        return 'd'\n"),
    ("class:abc-meta", "class C{n}(metaclass=abc.ABCMeta):\n    @abc.abstractmethod\n    def run(self) -> None: ...\n"),
    ("class:protocol", "class P{n}(Protocol):\n    def run(self, a: int) -> int: ...\n\n\nclass Q{n}(Protocol[T_co]):\n    def get(self) -> T_co: ...\n"),
    ("class:generic", "class G{n}(Generic[T]):\n    def __init__(self, item: T) -> None:\n        self.item = item\n\n    def get(self) -> T:\n        return self.item\n\n    def swap(self, other: 'G{n}[T]') -> 'G{n}[T]':\n        return other\n\n\nclass H{n}(Generic[K, V]):\n    def pair(self, k: K, v: V) -> tuple[K, V]:\n        return k, v\n\n\nclass I{n}(G{n}[int]):\n    pass\n\n\ndef use{n}(a: G{n}[str], b: H{n}[int, str]) -> G{n}[int]:\n    return G{n}(1)\n"),
    ("class:self-type", "class C{n}:\n    def me(self) -> typing.Self:\n        return self\n\n    @classmethod\n    def make(cls) -> typing.Self:\n        return cls()\n"),
    ("class:dataclass", "@dataclass\nclass C{n}:\n    a: int\n    b: str = 'x'\n    c: list[int] = field(default_factory=list)\n    d: ClassVar[int] = 0\n\n    def total(self) -> int:\n        return self.a\n\n\n@dataclasses.dataclass(frozen=True, order=True)\nclass D{n}:\n    x: float = 0.0\n"),
    ("class:namedtuple", "class C{n}(NamedTuple):\n    a: int\n    b: str = 'x'\n\n    def describe(self) -> str:\n        return self.b\n"),
    ("class:typeddict", "class C{n}(TypedDict):\n    a: int\n    b: str\n\n\nclass D{n}(TypedDict, total=False):\n    c: float\n"),
    ("class:exception", "class E{n}(Exception):\n    def __init__(self, msg: str, code: int = 1) -> None:\n        super().__init__(msg)\n        self.code = code\n\n\nclass F{n}(E{n}):\n    pass\n\n\nclass G{n}(ValueError, E{n}):\n    def detail(self) -> str:\n        return ''\n"),
    ("class:inheritance", "class A{n}:\n    def a(self) -> int:\n        return 1\n\n\nclass _B{n}(A{n}):\n    def b(self) -> int:\n        return 2\n\n\nclass C{n}(_B{n}, dict):\n    def c(self) -> int:\n        return 3\n\n\nclass D{n}(OrderedDict, A{n}):\n    pass\n\n\nclass E{n}(Path):\n    pass\n"),
    ("class:metaclass-and-decorator", "class Meta{n}(type):\n    def __new__(mcs, name, bases, ns):\n        return super().__new__(mcs, name, bases, ns)\n\n\ndef cdeco{n}(cls):\n    return cls\n\n\n@cdeco{n}\nclass C{n}(metaclass=Meta{n}):\n    pass\n"),
    ("class:operators", "class C{n}:\n    def __add__(self, o: 'C{n}') -> 'C{n}':\n        return self\n\n    def __lt__(self, o: object) -> bool:\n        return False\n\n    def __getitem__(self, i: int | slice) -> int:\n        return 0\n\n    def __iter__(self) -> Iterator[int]:\n        return iter([])\n\n    def __enter__(self) -> 'C{n}':\n        return self\n\n    def __exit__(self, *exc: Any) -> bool | None:\n        return None\n\n    async def __aenter__(self):\n        return self\n"),
    ("class:conditional-members", "class C{n}:\n    if sys.platform == 'win32':\n        def run(self) -> int:\n            return 1\n    else:\n        def run(self) -> int:\n            return 2\n    try:\n        FLAG = True\n    except Exception:\n        FLAG = False\n    for _i in range(2):\n        pass\n    with open(os.devnull) as _fh:\n        pass\n"),
    # ---------------------------------------------------------------- enums
    ("enum:plain", "class E{n}(Enum):\n    \"\"\"Enum doc.\"\"\"\n    RED = 1\n    GREEN = 'g'\n    BLUE = (1, 2)\n    ALIAS = RED\n\n\nclass F{n}(IntEnum):\n    ONE = 1\n    TWO = auto()\n\n\nclass G{n}(enum.Enum):\n    A, B = 1, 2\n\n\ndef use{n}(a: E{n}, b: F{n} = F{n}.ONE) -> E{n}:\n    return a\n"),
    ("enum:with-method", "class E{n}(Enum):\n    A = 1\n\n    def label(self) -> str:\n        return self.name\n\n    @property\n    def nice(self) -> str:\n        return 'x'\n\n    @classmethod\n    def parse(cls, s: str) -> 'E{n}':\n        return cls.A\n"),
    ("enum:flag-and-str", "class E{n}(enum.Flag):\n    R = 1\n    W = 2\n\n\nclass F{n}(str, Enum):\n    A = 'a'\n\n\nclass G{n}(enum.IntFlag):\n    X = 1\n"),
    ("enum:functional", "E{n} = Enum('E{n}', 'RED GREEN')\nF{n} = enum.IntEnum('F{n}', {{'A': 1}})\n"),
    ("enum:empty-and-annotated", "class E{n}(Enum):\n    pass\n\n\nclass F{n}(Enum):\n    _ignore_ = ['x']\n    A: int = 1\n"),
    # ---------------------------------------------------------------- module-level things
    ("module:aliases-and-variables", "Alias{n} = dict[str, int]\nOptAlias{n} = Optional[int]\nIntList{n}: typing.TypeAlias = list[int]\nvariable{n}: int = 1\nuntyped{n} = _helper()\nname{n}, other{n} = 'a', 'b'\n\n\ndef f{n}(a: Alias{n}, b: OptAlias{n} = None, c: IntList{n} = None) -> Alias{n}:\n    return a\n"),
    ("module:all-and-dunder", "__all__ = ['f{n}']\n__version__ = '1.0'\n\n\ndef f{n}() -> None: ...\n"),
    ("module:star-import-stdlib", "from os.path import *\nfrom json import loads as _loads, dumps\n\n\ndef f{n}(p: str) -> str:\n    return basename(p)\n"),
    ("type:unresolved-import-from", "from not_installed_lib_{n}.sub import Widget{n}, make_widget\n\n\ndef f{n}(w: Widget{n}, x: 'Widget{n} | None' = None) -> Widget{n}:\n    return w\n\n\nclass C{n}(Widget{n}):\n    def m(self) -> Widget{n}:\n        return self\n"),
    ("type:unresolved-import-module-alias", "import not_installed_np_{n} as np{n}\n\n\ndef f{n}(a: np{n}.ndarray, b: 'np{n}.dtype' = None) -> np{n}.ndarray:\n    return a\n"),
    ("module:main-guard-and-statements", "def f{n}() -> None: ...\n\n\nif __name__ == '__main__':\n    f{n}()\nfor _x{n} in range(2):\n    pass\nwhile False:\n    pass\nassert True\ndel _x{n}\n"),
    ("module:match-statement", "def f{n}(a: object) -> int:\n    match a:\n        case int(x):\n            return x\n        case [1, *rest]:\n            return len(rest)\n        case {{'k': v}}:\n            return 1\n        case _:\n            return 0\n"),
    ("module:pep695", "type Alias{n} = list[int]\n\n\ndef f{n}[U](a: U) -> U:\n    return a\n\n\nclass C{n}[W]:\n    def get(self) -> W: ...\n"),
    ("module:unicode", "def f{n}(a: str = 'ünïcödé ✓', b: str = '\\u2603') -> str:\n    \"\"\"Dócstring with ünicode ✓ and emoji 🎉.\"\"\"\n    return a\n"),
    ("names:underscore-shapes", "def a__b{n}(x__y: int, _z: int, w_: int, __v: int = 0, u__: str = 'u') -> None: ...\n\n\nclass Data__Frame{n}:\n    def go(self) -> None: ...\n\n\nclass __Odd__Name{n}__:\n    pass\n\n\nclass snake_case_class_{n}:\n    q__r: int = 1\n    s_: int = 2\n\n    def m__n(self, o__p: int) -> None: ...\n\n    def __dunder_thing__(self) -> None: ...\n"),
    # ---------------------------------------------------------------- forms added after independently found aborts (base class expressions, generic bases, ...)
    ('class:generic-restricted-untyped-methods', "class GV{n}(Generic[V]):\n    @classmethod\n    def make(cls, a, b=3):\n        return cls()\n\n    @staticmethod\n    def st(a): ...\n\n    def inst(self, x, y='s'):\n        return x\n\n    def typed(self, x: V) -> V:\n        return x\n"),
    ('class:concrete-generic-bases', "class SA{n}(Sequence[int]):\n    def __len__(self) -> int:\n        return 0\n\n    def __getitem__(self, i):\n        return 0\n\n\nclass SB{n}(Sequence[list[int]]): ...\n\n\nclass SC{n}(typing.Collection['SA{n}']): ...\n\n\nclass SD{n}(Mapping[str, int]): ...\n\n\nclass SE{n}(dict[str, int]): ...\n\n\nclass SF{n}(list[int]): ...\n\n\nclass SG{n}(OrderedDict[str, int]): ...\n\n\nclass SH{n}(typing.List[int]): ...\n\n\nclass SI{n}(Sequence[T]):\n    def one(self) -> T: ...\n\n\nclass SJ{n}(Generic[T], Sequence[T]): ...\n\n\nclass SK{n}(Sequence[T], Generic[T]): ...\n\n\nclass SL{n}(Iterable[T_co]): ...\n\n\nclass SM{n}(defaultdict): ...\n\n\nclass SN{n}(tuple[int, str]): ...\n\n\nclass SO{n}(Sequence[tuple[int, ...]]): ...\n"),
    ('class:paramspec-and-typevartuple', "from typing import ParamSpec, TypeVarTuple, Unpack, Concatenate\n\nP{n} = ParamSpec('P{n}')\nTs{n} = TypeVarTuple('Ts{n}')\n\n\nclass PA{n}(Generic[P{n}, T]):\n    def call(self, f: Callable[P{n}, T], *args: P{n}.args, **kwargs: P{n}.kwargs) -> T:\n        return f(*args, **kwargs)\n\n\nclass PB{n}(Generic[Unpack[Ts{n}]]):\n    def items(self) -> tuple[Unpack[Ts{n}]]: ...\n\n\nclass PC{n}(Generic[*Ts{n}]):\n    def first(self, *args: *Ts{n}) -> int: ...\n\n\ndef deco{n}(f: Callable[P{n}, T]) -> Callable[Concatenate[int, P{n}], T]: ...\n\n\ndef vt{n}(*args: Unpack[Ts{n}]) -> tuple[Unpack[Ts{n}]]: ...\n"),
    ('class:foreign-private-base', "import argparse\nfrom argparse import _StoreAction as _Base{n}\n\n\nclass _Own{n}:\n    def own(self) -> int: ...\n\n\nclass FB{n}(argparse._StoreAction, _Own{n}):\n    def extra(self) -> int: ...\n\n\nclass FC{n}(_Base{n}):\n    def extra2(self) -> int: ...\n\n\ndef use{n}(a: argparse._StoreAction, b: '_Base{n}' = None) -> argparse._SubParsersAction: ...\n"),
    ('class:base-expression-forms', "class BA{n}(type(Path())): ...\n\n\nclass BB{n}(os.PathLike): ...\n\n\nclass BC{n}(functools.partial): ...\n\n\nclass BD{n}(ABC, Generic[T]): ...\n\n\nclass BE{n}(object): ...\n\n\nclass BF{n}(typing.NamedTuple('BFBase{n}', [('a', int)])): ...\n\n\nclass BG{n}(Path if TYPE_CHECKING else object): ...\n\n\nclass BH{n}(*[int]): ...\n"),
    ('class:init-subclass-keywords', 'class KA{n}:\n    def __init_subclass__(cls, flag: bool = False, **kwargs) -> None:\n        super().__init_subclass__(**kwargs)\n\n\nclass KB{n}(KA{n}, flag=True): ...\n\n\nclass KC{n}(KA{n}, metaclass=abc.ABCMeta, flag=False): ...\n'),
    ('func:functools-decorators', "@functools.cache\ndef fa{n}(a: int) -> int:\n    return a\n\n\n@functools.lru_cache(maxsize=None)\ndef fb{n}(a: int) -> int:\n    return a\n\n\n@functools.singledispatch\ndef fc{n}(a) -> str:\n    return 'x'\n\n\n@fc{n}.register\ndef _(a: int) -> str:\n    return 'i'\n\n\n@fc{n}.register(str)\ndef _fc_str{n}(a):\n    return 's'\n\n\ndef fd{n}(fn):\n    @functools.wraps(fn)\n    def wrapper(*args, **kwargs):\n        return fn(*args, **kwargs)\n    return wrapper\n\n\n@fd{n}\ndef fe{n}(a: int) -> int:\n    return a\n\n\n@typing.final\ndef ff{n}() -> None: ...\n\n\n@typing.no_type_check\ndef fg{n}(a: 'not a type', b: 1 + 2 = 3) -> 'whatever': ...\n"),
    ('func:contextmanager', 'import contextlib\n\n\n@contextlib.contextmanager\ndef cm{n}(a: int) -> Iterator[int]:\n    yield a\n\n\n@contextlib.asynccontextmanager\nasync def acm{n}(a: int):\n    yield a\n\n\nclass CM{n}:\n    def __enter__(self):\n        return self\n\n    def __exit__(self, *exc) -> bool:\n        return False\n\n    async def __aenter__(self): ...\n\n    async def __aexit__(self, et, ev, tb): ...\n'),
    ('class:cached-property-slots-descriptor', "class Desc{n}:\n    def __get__(self, obj, objtype=None) -> int:\n        return 1\n\n    def __set__(self, obj, value: int) -> None: ...\n\n    def __set_name__(self, owner, name): ...\n\n\nclass CS{n}:\n    __slots__ = ('a', 'b', '__dict__')\n    d = Desc{n}()\n\n    def __init__(self) -> None:\n        self.a = 1\n        self.b = 's'\n\n    @functools.cached_property\n    def heavy(self) -> list[int]:\n        return []\n\n    @functools.cached_property\n    def untyped(self):\n        return 1\n\n    def __class_getitem__(cls, item):\n        return cls\n\n    def __getattr__(self, name: str) -> Any: ...\n\n    def __call__(self, *a, **k): ...\n"),
    ('class:total-ordering', '@functools.total_ordering\nclass TO{n}:\n    def __init__(self, v: int) -> None:\n        self.v = v\n\n    def __eq__(self, other: object) -> bool:\n        return True\n\n    def __lt__(self, other: \'TO{n}\') -> bool:\n        """Less."""\n        return True\n'),
    ('class:dataclass-variants', "@dataclass(frozen=True, order=True, slots=True)\nclass DA{n}:\n    a: int = 0\n    b: list[int] = field(default_factory=list, compare=False)\n    c: ClassVar[int] = 1\n    d: dataclasses.InitVar[int] = 0\n    _: dataclasses.KW_ONLY\n    e: str = 'e'\n\n    def __post_init__(self, d: int) -> None: ...\n\n\n@dataclasses.dataclass(kw_only=True)\nclass DB{n}(DA{n}):\n    f: float = 1.0\n\n\n@dataclass\nclass DC{n}(Generic[T]):\n    item: T\n    items: list[T] = field(default_factory=list)\n"),
    ('class:property-variants', "class PV{n}:\n    def _get(self) -> int:\n        return 1\n\n    def _set(self, v: int) -> None: ...\n\n    x = property(_get, _set, doc='The x.')\n    y = property(lambda self: 2)\n\n    @property\n    def z(self): ...\n\n    @z.setter\n    def z(self, v): ...\n\n    @z.deleter\n    def z(self): ...\n\n    @property\n    @abstractmethod\n    def w(self) -> int: ...\n\n    @classmethod\n    @property\n    def cp(cls) -> int:\n        return 1\n\n    @staticmethod\n    @functools.cache\n    def sc() -> int:\n        return 1\n"),
    ('attr:annotated-only-and-odd-annotations', "class AO{n}:\n    a: int\n    b: 'AO{n}'\n    c: list['AO{n}'] = []\n    d: typing.Annotated[int, 'meta'] = 0\n    e: Optional['AO{n}'] = None\n    f: Callable[..., 'AO{n}'] | None = None\n    g: type['AO{n}'] | None = None\n    h: 'int | None' = None\n    i: Literal['a'] | Literal['b'] = 'a'\n    j: Final[int] = 1\n    k: ClassVar[Final[int]] = 2\n    l: typing.Required[int] = 1\n\n    def __init__(self) -> None:\n        self.m: 'list[AO{n}]' = []\n        self.n = self.o = 0\n        self.p, self.q = 1, 's'\n        (self.r, (self.s, self.t)) = 1, (2, 3)\n        self.u: int\n        with open(os.devnull) as self.v:\n            pass\n        for self.w in range(1):\n            pass\n"),
    ('type:newtype-and-aliases', "UserId{n} = typing.NewType('UserId{n}', int)\nVec{n} = list[float]\nMaybe{n} = Optional[T]\nHandler{n} = Callable[[int], None]\nJson{n} = Union[dict[str, 'Json{n}'], list['Json{n}'], str, int, None]\n\n\ndef na{n}(a: UserId{n}, b: Vec{n}, c: Maybe{n}[int], d: Handler{n}, e: Json{n} = None) -> UserId{n}:\n    return a\n\n\nclass NA{n}:\n    uid: UserId{n}\n    vec: Vec{n} = []\n"),
    ('type:typing-extras', "def te{n}(a: typing.Annotated[int, 'x'], b: typing.Type[int], c: typing.Tuple[int, ...], d: typing.FrozenSet[int], e: typing.Deque[int], f: typing.DefaultDict[str, int], g: typing.Counter[str], h: typing.ChainMap[str, int], i: typing.Awaitable[int], j: typing.Coroutine[Any, Any, int], k: typing.AsyncIterator[int], l: typing.Generator[int, None, str], m: typing.IO[str], n: typing.Pattern[str], o: typing.SupportsInt, p: typing.Hashable, q: typing.Sized, r: typing.NoReturn = None, s: typing.Never = None, t: typing.LiteralString = 'x', u: typing.TypeGuard[int] = False, v: bytes | bytearray | memoryview = b'', w: complex = 1j, x: frozenset[int] = frozenset(), y: range = range(1), z: slice = slice(1)) -> typing.NoReturn:\n    raise SystemExit\n"),
    ('func:return-annotation-forms', 'def ra{n}() -> \'tuple[int, str]\': ...\n\n\ndef rb{n}() -> tuple[()]: ...\n\n\ndef rc{n}() -> tuple[int, ...]: ...\n\n\ndef rd{n}() -> tuple[None, int]: ...\n\n\ndef re{n}() -> tuple[tuple[int, str], list[tuple[()]]]: ...\n\n\ndef rf{n}() -> None | None: ...\n\n\ndef rg{n}() -> Optional[None]: ...\n\n\ndef rh{n}() -> typing.Self: ...\n\n\ndef ri{n}() -> type[None]: ...\n\n\ndef rj{n}() -> Literal[None]: ...\n\n\ndef rk{n}() -> \'Literal["a b", 1, True, None]\': ...\n\n\ndef rl{n}() -> Callable[[], tuple[int, str]]: ...\n\n\ndef rm{n}() -> Callable[[Callable[[int], str]], Callable[..., None]]: ...\n'),
    ('func:param-default-forms-2', "def pd{n}(a=(), b=(1,), c={{}}, d=set(), e=frozenset({{1}}), f=b'x', g=1j, h=..., i=1e10, j=-1e-3, k=0x1F, l=1_000, m='a' 'b', n=f'x', o=None or 1, p=[1] * 3, q=lambda: 0, r=int, s=Path.cwd, t=os.environ.get('X'), u=CONSTANT + 1, v=(yield_ := 3), x=not None, y=-(-1), z=True and False): ...\n"),
    ('class:nested-deep-mixed', "class NM{n}:\n    class A:\n        class B:\n            X = 1\n\n        class C(Generic[T]):\n            class D:\n                def m(self, t: T) -> 'NM{n}.A.C.D': ...\n\n        def use(self, b: 'NM{n}.A.B', c: 'NM{n}.A.C[int]') -> None: ...\n\n    def outer(self, a: A, d: 'A.C.D') -> A.B: ...\n"),
    ('class:method-aliases-and-lambdas', 'class MA{n}:\n    def real(self, a: int) -> int:\n        return a\n\n    alias = real\n    lam = lambda self, x: x\n    stat = staticmethod(lambda x: x)\n    cm = classmethod(lambda cls: cls)\n    bound = _helper\n    part = functools.partialmethod(real, 1)\n\n\nmod_alias{n} = MA{n}.real\nmod_lam{n} = lambda a, b=1: a\nmod_part{n} = functools.partial(_helper, 1)\n'),
    ('module:conditional-and-try-imports', 'try:\n    import numpy_not_there_{n} as npx{n}\nexcept ImportError:\n    npx{n} = None\n\ntry:\n    from typing import Self as Self{n}\nexcept ImportError:\n    Self{n} = Any\n\nif sys.version_info >= (3, 99):\n    def newer{n}() -> int: ...\nelse:\n    def newer{n}() -> str: ...\n\nif TYPE_CHECKING:\n    def only_checking{n}() -> int: ...\n\nfor _i{n} in range(2):\n    def in_loop{n}() -> int: ...\n\nwith open(os.devnull) as _fh{n}:\n    def in_with{n}() -> int: ...\n\n\nclass TryC{n}:\n    try:\n        a: int = 1\n    except Exception:\n        a = 2\n\n    try:\n        def m(self) -> int: ...\n    finally:\n        pass\n'),
    ('class:exception-hierarchy', 'class EA{n}(Exception): ...\n\n\nclass EB{n}(EA{n}, ValueError):\n    code: int = 1\n\n\nclass EC{n}(BaseException): ...\n\n\nclass ED{n}(ExceptionGroup): ...\n\n\nclass EE{n}(Warning): ...\n\n\ndef raises{n}(e: EA{n}, f: type[EB{n}] = EB{n}) -> EC{n}: ...\n\n\nclass UsesExc{n}(EA{n}.__class__): ...\n'),
    ('enum:odd-members', "class OE{n}(Enum):\n    A = auto()\n    B = (1, 'b')\n    C = [1]\n    D = None\n    E = A\n    F: int = 5\n    _private = 6\n    __dunder__ = 7\n\n    @property\n    def p(self) -> int:\n        return 1\n\n    @classmethod\n    def _missing_(cls, value): ...\n\n    @staticmethod\n    def s() -> int:\n        return 1\n\n\nclass OF{n}(IntEnum):\n    ONE = 1\n    TWO = ONE + 1\n\n\nclass OG{n}(enum.StrEnum):\n    S = 's'\n\n\nclass OH{n}(OE{n}.__class__): ...\n\n\n@enum.unique\nclass OI{n}(enum.IntFlag, boundary=enum.KEEP):\n    R = 1\n"),
    ('func:overload-variants', 'class OV{n}:\n    @overload\n    @staticmethod\n    def s(a: int) -> int: ...\n    @overload\n    @staticmethod\n    def s(a: str) -> str: ...\n    @staticmethod\n    def s(a):\n        return a\n\n    @overload\n    @classmethod\n    def c(cls, a: int) -> int: ...\n    @overload\n    @classmethod\n    def c(cls, a: str) -> str: ...\n    @classmethod\n    def c(cls, a):\n        return a\n\n    @overload\n    def __init__(self, a: int) -> None: ...\n    @overload\n    def __init__(self, a: str, b: int = 1) -> None: ...\n    def __init__(self, a, b=1) -> None:\n        self.a = a\n\n    @property\n    def p(self) -> int: ...\n\n    @overload\n    def only_overloads(self, a: int) -> int: ...\n    @overload\n    def only_overloads(self, a: str) -> str: ...\n'),
    ('module:name-collisions', "class list{n}: ...\n\n\nclass int:  # shadows the builtin inside this module\n    def real(self) -> 'int': ...\n\n\ndef str(a: int) -> int: ...\n\n\nclass Path{n}(Path): ...\n\n\ndef typing_shadow{n}(typing: int, os: 'int' = None, Any: list = None) -> int: ...\n"),
    ('type:literal-forms', 'class Col{n}(Enum):\n    RED = 1\n    BLUE = 2\n\n\ndef lf{n}(a: Literal[Col{n}.RED], b: Literal[Col{n}.RED, Col{n}.BLUE, None] = None, c: Literal[b\'x\'] = b\'x\', d: Literal[-1, 0, 1] = 0, e: Literal[\'a\', Literal[\'b\', \'c\']] = \'a\', f: Literal[True, \'True\', 1] = True, g: \'Literal["q"]\' = \'q\', h: Optional[Literal[\'only\']] = None, i: list[Literal[1, 2]] = [], j: dict[Literal[\'k\'], Literal[0]] = {{}}) -> Literal[Col{n}.BLUE]: ...\n'),
    ('type:callable-forms', "class CF{n}:\n    a: Callable[[int], None] | None = None\n    b: Callable[[Callable[[int], str]], Callable[[], None]]\n    c: Callable[..., Any]\n    d: Callable\n    e: typing.Callable[[], 'CF{n}']\n    f: list[Callable[[int, str], bool]] = []\n    g: Callable[[int], Optional[Callable[[str], None]]] = None\n\n    def __init__(self, h: Callable[[], None] = lambda: None) -> None:\n        self.h = h\n        self.i: Callable[[int], int] = lambda x: x\n\n    def m(self, cb: Callable[['CF{n}'], 'CF{n}']) -> Callable[['CF{n}'], 'CF{n}']: ...\n"),
    ('type:type-of-forms', "def tf{n}(a: type[int] | None, b: type[Any], c: typing.Type[T], d: type[int | str], e: type['Later{n}'], f: type[T] = None, g: type = int) -> type[T]: ...\n\n\nclass Later{n}: ...\n"),
    ('type:pep695-generics', 'class PG{n}[T: int, *Ts, **P]:\n    def m(self, a: T, *args: *Ts) -> T: ...\n\n\nclass PH{n}[T: (int, str)]:\n    x: T\n\n\ndef pg{n}[T, U: Sequence[int]](a: T, b: U) -> tuple[T, U]: ...\n\n\ntype PAlias{n}[T] = list[T] | None\n\n\ndef pa{n}(a: PAlias{n}[int]) -> PAlias{n}[str]: ...\n'),
    ('type:kwargs-unpack-typeddict', "class Opts{n}(TypedDict, total=False):\n    a: int\n    b: typing.Required[str]\n    c: typing.NotRequired[list[int]]\n\n\ndef ku{n}(**kwargs: typing.Unpack[Opts{n}]) -> Opts{n}: ...\n\n\nclass NT{n}(NamedTuple):\n    x: int\n    y: 'NT{n} | None' = None\n\n\ndef nt{n}(a: NT{n}, b: Opts{n}) -> tuple[NT{n}, Opts{n}]: ...\n"),
    ('type:special-forms', "def sf{n}(a: typing.Never, b: typing.NoReturn, c: typing.TypeGuard[int], d: typing.LiteralString, e: typing.AnyStr, f: typing.Text, g: typing.ByteString = b'', h: typing.Optional[typing.Union[typing.List[typing.Dict[str, typing.Tuple[int, ...]]], None]] = None, i: 'typing.Any' = None, j: None = None, k: type(None) = None, l: ... = 0) -> typing.TypeGuard[str]: ...\n"),
    ('type:self-forms', "class SFm{n}:\n    @classmethod\n    def make(cls) -> typing.Self: ...\n\n    @property\n    def me(self) -> typing.Self: ...\n\n    def others(self, o: list[typing.Self]) -> dict[str, typing.Self]: ...\n\n    nxt: 'typing.Self | None' = None\n"),
    ('default:numeric-extremes', "def ne{n}(a=1e400, b=-1e400, c=float('nan'), d=10**100, e=-0.0, f=1e-400, g=0o17, h=0b101, i=1_000_000, j=123456789012345678901234567890, k=1.7976931348623157e308, l=5e-324, m=float('inf'), n=1e400 - 1e400, o=0.1 + 0.2, p=1j, q=True + 1): ...\n\n\nclass NE{n}:\n    big = 10**100\n    inf = 1e400\n    huge: int = 123456789012345678901234567890\n    nan: float = float('nan')\n"),
    ('default:string-forms', 'def sfm{n}(a=\'\'\'multi\nline\'\'\', b="tab\\there", c=\'nul\\x00byte\', d=\'quote"s\', e="apos\'trophe", f=\'back\\\\slash\', g=\'uni\\u2028sep\', h=\'emoji \\U0001F600\', i=r\'raw\\d\', j=b\'bytes\\xff\', k=\'\' , l=\' \', m=\'a\' * 3, n=\'%s\' % 1, o=\'{{}}\'.format(1), p=f\'{{1}}\', q=\'\\n\', r=\'\\r\\n\', s=\'\\t\', t=\'*/\', u=\'/*\', v=\'//\', w=\'{{\', x=\'`\', y=\'\\\\"\', z=\'\\\'\'): ...\n'),
    ('default:enum-and-attr-defaults', "class DM{n}(Enum):\n    A = 1\n    B = 2\n\n\ndef de{n}(a: DM{n} = DM{n}.A, b=DM{n}.B, c: int = DM{n}.A.value, d=DM{n}['A'], e=DM{n}(1), f=sys.maxsize, g=os.sep, h=Path.home(), i=-DM{n}.A.value, j=(DM{n}.A, DM{n}.B), k=[DM{n}.A], l={{DM{n}.A: 1}}, m=DM{n}.A if True else DM{n}.B, n=DM{n}.A.name): ...\n"),
    ('default:container-defaults', "def cd{n}(a=(), b=(1,), c=(1, 'a', None), d=[], e=[1, [2, [3]]], f={{}}, g={{'k': {{'n': 1}}}}, h={{1, 2}}, i=frozenset(), j=[*range(3)], k={{**{{}}}}, l=(x for x in ()), m=[x for x in ()], n=dict(a=1), o=list(), p=tuple((1, 2)), q=range(3), r=slice(None), s=None, t=NotImplemented, u=Ellipsis, v=type, w=object(), x=print, y=__name__, z=__file__): ...\n"),
    ('class:attr-value-forms', "class AV{n}:\n    a = 1e400\n    b = 10**100\n    c = '*/ end'\n    d = DM_VAL{n} = 3\n    e = (1, 2)\n    f = [1]\n    g = {{'k': 1}}\n    h = None\n    i = ...\n    j = lambda: 0\n    k = int\n    l = Path('.')\n    m = _helper()\n    n = a\n    o = -a\n    p = not a\n    q = a if b else c\n    r = f'{{a}}'\n    s = b'x'\n    t = 1 + 2j\n    u: 'int' = 0\n    v: int = None\n    w: 'AV{n}' = None\n    x = property(lambda self: 1)\n    y = staticmethod(len)\n    z = classmethod(lambda cls: 1)\n"),
    ("class:method-typevar", "class MT{n}:\n    def first(self, items: list[T]) -> T:\n        return items[0]\n\n    @staticmethod\n    def second(a: K, b: V) -> K:\n        return a\n\n    @classmethod\n    def third(cls, a: T_co) -> list[T_co]:\n        return [a]\n\n\nclass MU{n}(Generic[K]):\n    def other(self, a: T, b: K) -> tuple[T, K]:\n        return a, b\n"),
    ("enum:nested-class", "class EN{n}(Enum):\n    A = 1\n\n    class Inner:\n        x = 1\n\n        def m(self) -> int:\n            return 1\n"),
    ("class:attributes-assigned-outside-init", "@dataclass\nclass PI{n}:\n    w: float = 1.0\n    h: float = 2.0\n    area: float = field(init=False)\n\n    def __post_init__(self) -> None:\n        self.area = self.w * self.h\n        self.diagonal: float = (self.w ** 2 + self.h ** 2) ** 0.5\n        self.label = 'r'\n        self.a, self.b = 1, 2\n\n\nclass PJ{n}:\n    def __new__(cls, *args, **kwargs):\n        inst = super().__new__(cls)\n        inst.made_in_new = 1\n        return inst\n\n    def __init__(self) -> None:\n        self.x = 0\n        self._setup()\n\n    def _setup(self) -> None:\n        self.from_helper: int = 1\n        self.other_helper = 's'\n\n    def reset(self) -> None:\n        self.x = 0\n        self.late: list[int] = []\n\n    def __enter__(self):\n        self.entered = True\n        return self\n\n    def __exit__(self, *exc) -> None:\n        self.entered = False\n\n    @classmethod\n    def build(cls) -> 'PJ{n}':\n        cls.counter = 0\n        obj = cls()\n        obj.tag = 't'\n        return obj\n"),
    ("return:inferred:unresolvable-name", "def un{n}(a):\n    return undefined_name_{n}\n\n\ndef ua{n}(a):\n    return a.missing.attr\n\n\nclass UC{n}:\n    def m(self):\n        return other_undefined_{n}\n\n    def n(self, flag):\n        if flag:\n            return not_there_{n}(1)\n        return also_missing_{n}.attr\n"),
    ("module:definition-shadowed-by-import", "def dumps{n}(obj: object) -> str:\n    \"\"\"Pure Python fallback.\"\"\"\n    return str(obj)\n\n\nclass Decoder{n}:\n    \"\"\"Fallback class.\"\"\"\n\n\ntry:\n    from json import dumps as dumps{n}  # accelerated implementation replaces the definition above\n    from json import JSONDecoder as Decoder{n}\nexcept ImportError:\n    pass\n\n\ndef sqrt{n}(x: float) -> float:\n    \"\"\"Shadowed below.\"\"\"\n    return x\n\n\nfrom math import sqrt as sqrt{n}  # noqa: E402\n"),
    ("return:inferred:self-of-special-classes", "class RS{n}(NamedTuple):\n    a: int = 0\n    b: str = ''\n\n    def same(self):\n        return self\n\n    def pair(self):\n        return self, self.a\n\n\nclass RV{n}(Generic[V]):\n    def keep(self):\n        return self\n\n    def val(self, v: V):\n        return v\n\n\nclass RP{n}:\n    def me(self):\n        return self\n\n    @classmethod\n    def make(cls):\n        return cls\n\n    @staticmethod\n    def none():\n        return RP{n}\n"),
    ("class:pep695-with-collection-base", "class PA{n}[T](Sequence[T]):\n    def __getitem__(self, i):\n        raise IndexError\n\n    def __len__(self) -> int:\n        return 0\n\n\nclass PB{n}[T: int, *Ts, **P](Iterable[T]):\n    def __iter__(self):\n        return iter(())\n\n\nclass PC{n}[K, V](Mapping[K, V]):\n    def __getitem__(self, k):\n        raise KeyError\n\n    def __iter__(self):\n        return iter(())\n\n    def __len__(self) -> int:\n        return 0\n"),
    ("annotation:variable-used-as-type", "Model{n}: Any = object()\nKind{n} = Model{n}\nMaybe{n}: 'type | None' = None\n\n\ndef vt{n}(m: Model{n}, k: Kind{n} = None, o: Maybe{n} = None) -> Model{n}: ...\n\n\nclass VT{n}:\n    held: Model{n} = None\n\n    def get(self, m: 'Model{n}') -> 'list[Model{n}]': ...\n"),
    ("module:big-function", "def f{n}(" + ", ".join(f"p{i}: int = {i}" for i in range(60)) + ") -> int:\n    return 0\n"),
]

DOC_SNIPPETS = {
    "numpydoc": ("def d{n}(a: int, b='x', *args, **kwargs):\n    \"\"\"Summary.\n\n    Extended.\n\n    Parameters\n    ----------\n    a : int\n        The a.\n    b : str, default='x'\n        The b.\n    *args : Any\n        More.\n    **kwargs\n        Even more.\n    missing : float\n        Not a parameter.\n\n    Returns\n    -------\n    first : int\n        One.\n    second : {'auto', 'manual'}\n        Two.\n\n    Raises\n    ------\n    ValueError\n        Sometimes.\n\n    Examples\n    --------\n    >>> d{n}(1)\n    ... # more\n    1\n\n    See Also\n    --------\n    other : thing\n    \"\"\"\n    return 1, 'auto'\n\n\nclass DC{n}:\n    \"\"\"Class.\n\n    Parameters\n    ----------\n    x : float in the range [0, 1]\n        The x.\n    y : list of int or None, optional\n        The y.\n\n    Attributes\n    ----------\n    z : int\n        The z.\n    \"\"\"\n\n    z: int = 0\n\n    def __init__(self, x, y=None):\n        \"\"\"Init docstring.\n\n        Parameters\n        ----------\n        x : float\n            again\n        \"\"\"\n        self.x = x\n"),
    "google": ("def d{n}(a: int, b='x', *args, **kwargs):\n    \"\"\"Summary.\n\n    Extended.\n\n    Args:\n        a (int): The a.\n        b (str, optional): The b. Defaults to 'x'.\n        *args: More.\n        **kwargs (Any): Even more.\n        missing: Not a parameter.\n\n    Returns:\n        int: One.\n\n    Raises:\n        ValueError: Sometimes.\n\n    Yields:\n        int: Never.\n\n    Examples:\n        >>> d{n}(1)\n        1\n\n    Note:\n        A note.\n    \"\"\"\n    return 1\n\n\nclass DC{n}:\n    \"\"\"Class.\n\n    Args:\n        x (float): The x.\n        y (list[int] | None): The y.\n\n    Attributes:\n        z (int): The z.\n    \"\"\"\n\n    z: int = 0\n\n    def __init__(self, x, y=None):\n        self.x = x\n"),
    "rest": ("def d{n}(a: int, b='x', *args, **kwargs):\n    \"\"\"Summary.\n\n    Extended.\n\n    :param a: The a.\n    :type a: int\n    :param str b: The b.\n    :param args: More.\n    :param missing: Not a parameter.\n    :raises ValueError: Sometimes.\n    :returns: One.\n    :rtype: int\n    \"\"\"\n    return 1\n\n\nclass DC{n}:\n    \"\"\"Class.\n\n    :param x: The x.\n    :type x: float\n    :param y: The y.\n    :type y: list[int] or None\n    :var z: The z.\n    :vartype z: int\n    \"\"\"\n\n    z: int = 0\n\n    def __init__(self, x, y=None):\n        self.x = x\n"),
    "plaintext": ("def d{n}(a: int, b='x'):\n    \"\"\"Just text.\n\n        Indented weirdly.\n    And: colons, {braces}, `ticks`, <tags> & more.\n    \"\"\"\n    return 1\n\n\nclass DC{n}:\n    '''Single quoted docstring.'''\n\n    def __init__(self, x):\n        \"init doc\"\n        self.x = x\n"),
}


# ------------------------------------------------------------------------------------------------------------------
# Type expressions as people write them in docstrings: names, literals of every kind, '|' / 'or' / ',' chains of two to four
# members with literals in any place, brackets, prose forms and text that is no expression at all.
DOC_TYPE_ATOMS = [
    "int", "str", "None", "0", "1.5", "True", "'a'", '"fast mode"', "...", "list[int]", "dict[str, int]", "Foo", "a.b.C", "-1", "()", "[]",
    "{}", "{'a', 'b'}", "lambda: 0", "*", "int, optional", "bool", "float", "tuple[int, ...]", "set[str]", "Callable[[int], str]",
    "typing.Optional[int]", "x[", "int if x else str", "not int", "f'{x}'", "1 + 2", "int = 3", "list of int", "array-like of shape (n,)",
    "{0, 1}", "{True, False, None}", "type[int]", "Literal['a']", "Literal[1, 2]", "None | None", "int | 0", "object", "Any", "bytes",
]


def doc_type(rng, gated: set = frozenset()) -> str:
    k = rng.choice([1, 2, 2, 3, 3, 4])
    atoms = DOC_TYPE_ATOMS  # (a set of quoted choices makes its first member the documented default)
    t = rng.choice([" | ", " | ", " or ", ", "]).join(rng.choice(atoms) for _ in range(k))
    r = rng.random()
    if r < 0.1:
        t = f"list[{t}]"
    elif r < 0.2:
        t = f"Optional[{t}]"
    elif r < 0.25:
        t = f"({t})"
    elif r < 0.3:
        t = f"tuple[{t}, {rng.choice(DOC_TYPE_ATOMS)}]"
    elif r < 0.35:
        t = f"list of {t}"
    elif r < 0.4:
        t = f"dict[str, {t}]"
    return t


def doc_type_function(style: str, name: str, types: list[str]) -> str:
    """A function (and a class with an attribute) whose docstring gives ``types`` to its parameters, its result and the attribute."""
    ps = [f"p{i}" for i in range(len(types))]
    if style == "numpydoc":
        doc = "Summary.\n\n    Parameters\n    ----------\n" + "".join(f"    {p} : {t}\n        Text.\n" for p, t in zip(ps, types)) + f"\n    Returns\n    -------\n    r : {types[0]}\n        Text.\n"
        cdoc = f"Summary.\n\n    Attributes\n    ----------\n    at : {types[-1]}\n        Text.\n"
    elif style == "google":
        doc = "Summary.\n\n    Args:\n" + "".join(f"        {p} ({t}): Text.\n" for p, t in zip(ps, types)) + f"\n    Returns:\n        {types[0]}: Text.\n"
        cdoc = f"Summary.\n\n    Attributes:\n        at ({types[-1]}): Text.\n"
    elif style == "rest":
        doc = "Summary.\n\n" + "".join(f"    :param {p}: Text.\n    :type {p}: {t}\n" for p, t in zip(ps, types)) + f"    :returns: Text.\n    :rtype: {types[0]}\n"
        cdoc = f"Summary.\n\n    :var at: Text.\n    :vartype at: {types[-1]}\n"
    else:
        doc = "Summary " + "; ".join(types) + "\n"
        cdoc = "Summary.\n"
    return f"def {name}({', '.join(ps)}):\n    r\"\"\"{doc}    \"\"\"\n    return 1\n\n\nclass K{name}:\n    r\"\"\"{cdoc}    \"\"\"\n\n    at = None\n\n\n"


# what stands where the module docstring stands: the usual text, nothing, and the degenerate forms people leave behind
# (placeholder docstrings of line breaks / blanks only, the empty string, one line without final line break, raw text)
MODULE_DOCSTRING_FORMS = [
    None,  # keep the prelude's docstring
    None,
    '"""\n"""\n',
    '"""\n\n\n"""\n',
    '""" """\n',
    '""""""\n',
    '"""   \n\t\n"""\n',
    "'single quoted one-liner'\n",
    '"""\n\n    Indented after blank lines.\n\n\n"""\n',
    'r"""Raw \\d+ text */ with a comment end."""\n',
    "",  # no docstring at all
]


def prelude_with(form: str | None) -> str:
    if form is None:
        return PRELUDE
    head = PRELUDE.index("from __future__")
    return form + PRELUDE[head:]
