"""Check driver: verdict discipline, known findings, evidence, replay files (DESIGN.md sections 3.5, 4)."""

from __future__ import annotations

import hashlib
import json
import os
import re
import sys
import time
from collections import Counter
from dataclasses import asdict, dataclass, field

from . import run as runner
from .run import Case

VERIF = runner.VERIF
EVIDENCE_DIR = os.environ.get("VSDS_EVIDENCE_DIR") or os.path.join(VERIF, "evidence")
REPLAY_DIR = os.environ.get("VSDS_REPLAY_DIR") or os.path.join(VERIF, "replays")
KNOWN_FILE = os.path.join(VERIF, "known_findings.json")


@dataclass
class Viol:
    rule: str  # checker rule id, e.g. "unescaped-keyword"
    where: str  # element / location the rule fired on (stable text, no random values)
    detail: dict = field(default_factory=dict)  # expected / observed etc.

    def key(self) -> str:
        return f"{self.rule}@{self.where}"


def load_known(pid: str) -> list[dict]:
    if not os.path.exists(KNOWN_FILE):
        return []
    with open(KNOWN_FILE, encoding="utf-8") as fh:
        data = json.load(fh)
    return [f for f in data.get("findings", []) if f.get("property") == pid]


def gated_features(pid: str | None = None) -> set[str]:
    """Generator features tied to a recorded finding (of any property): general workloads avoid them."""
    if not os.path.exists(KNOWN_FILE):
        return set()
    with open(KNOWN_FILE, encoding="utf-8") as fh:
        data = json.load(fh)
    out: set[str] = set()
    for f in data.get("findings", []):
        out.update(f.get("feature", []))
    return out


class Check:
    """Collects what one check run observed and turns it into exit code + evidence + replay files."""

    def __init__(self, pid: str, tier: str, seed: int) -> None:
        self.pid = pid
        self.tier = tier
        self.seed = seed
        self.t0 = time.time()
        self.violations: list[tuple[Viol, Case | None, dict | None]] = []
        self.known_lines: list[str] = []
        self.known_seen: list[str] = []
        self.inconclusive: list[str] = []
        self.counters: Counter = Counter()
        self.samples: list = []
        self.signatures: set = set()
        self.idents: set = set()
        self.reach: Counter = Counter()
        self.monitors: dict = {}
        self.extra: dict = {}
        self.evaluations = 0
        self.runs = 0
        self.discarded = Counter()
        self.assumptions: list[str] = []
        # replay files of earlier runs of this check are stale: remove them
        d = os.path.join(REPLAY_DIR, pid)
        if tier != "probe" and os.path.isdir(d):
            for f in os.listdir(d):
                if f.endswith(".json"):
                    try:
                        os.unlink(os.path.join(d, f))
                    except OSError:
                        pass

    # ---- recording
    def note_run(self, rec: dict | None, mon: dict | None = None) -> None:
        self.runs += 1
        if rec:
            for k, v in (rec.get("reach") or {}).items():
                self.reach[k] += v
            self.counters["ledger_events"] += len(rec.get("ledger") or [])
            self.counters["dir_enumerations"] += rec.get("enum", 0)
            self.counters["dir_permutations_applied"] += rec.get("dir_perm", 0)
            self.counters["shuffled_set_iterations"] += rec.get("set_iter", 0)
            self.counters["log_records"] += len(rec.get("logs") or [])
            self.counters["files_in_output_trees"] += len(rec.get("tree") or {})
        if mon:
            for k, v in mon.items():
                self.monitors.setdefault(k, v)

    def case_ok(self, signature=None, n: int = 1, ident=None) -> None:
        """One judged case.  ``signature`` = equivalence class of the case (kind / shape), ``ident`` = what makes this
        very case distinct from every other one (e.g. run + declaration id); both are counted for the evidence."""
        self.evaluations += n
        if signature is not None:
            self.signatures.add(signature)
        if ident is not None:
            self.idents.add(hash(ident))

    def sample(self, s, limit: int = 4) -> None:
        if len(self.samples) < limit:
            self.samples.append(s)

    def violation(self, v: Viol, case: Case | None = None, rec: dict | None = None) -> None:
        self.violations.append((v, case, rec))

    def inconc(self, reason: str) -> None:
        self.inconclusive.append(reason)

    # ---- harness errors from the runner
    def runner_error(self, err: dict) -> None:
        if err.get("kind") == "watchdog":
            self.inconc(f"wall-clock watchdog fired after {err.get('timeout')}s on cases {err.get('cids')[:3]}")
        else:
            self.inconc(f"subprocess produced no result: rc={err.get('rc')} stderr={err.get('stderr', '')[-400:]!r}")

    # ---- known findings: probes
    def run_probes(self, judge, build_case=None, batch: bool = True) -> None:
        """For each recorded finding of this property run its probe through ``judge`` and compare shapes."""
        findings = load_known(self.pid)
        if not findings:
            return
        cases = []
        for f in findings:
            pr = f["probe"]
            if build_case is not None:
                c = build_case(f)
            else:
                c = Case(
                    cid="probe:" + f["id"],
                    files=pr["files"],
                    src=pr.get("src", "src/pk"),
                    opts=pr.get("opts", []),
                    hashseed=str(pr.get("hashseed", "0")),
                    meta=pr.get("meta", {}),
                )
            cases.append((f, c))
        results = runner.run_many([[c] for _, c in cases], steps="off")
        for (f, c), (_, recs, _mon, err) in zip(cases, results, strict=True):
            if err:
                self.runner_error(err)
                continue
            viols = judge(c, recs[0], probe=f)
            exp = f["expect"]
            matched = [v for v in viols if _shape_matches(v, exp)]
            other = [v for v in viols if not _shape_matches(v, exp)]
            if matched:
                line = f"KNOWN-FINDING: property={self.pid} {f['id']}: {f['what']}"
                self.known_lines.append(line)
                self.known_seen.append(f["id"])
            for v in other:
                allowed = f.get("also", [])
                if any(_shape_matches(v, a) for a in allowed):
                    continue
                self.violation(Viol(v.rule, v.where, {**v.detail, "in_probe": f["id"]}), c, recs[0])

    def classify_known(self, v: Viol) -> str | None:
        for f in load_known(self.pid):
            if _shape_matches(v, f["expect"]):
                return f["id"]
        return None

    # ---- finish
    def finish(self, rule: str, min_cases: int, coverage_extra: dict | None = None) -> int:
        wall = time.time() - self.t0
        os.makedirs(EVIDENCE_DIR, exist_ok=True)
        lines = []
        replay_paths = []
        seen_keys = set()
        for v, case, rec in self.violations:
            k = v.key()
            if k in seen_keys:
                continue
            seen_keys.add(k)
            if len(replay_paths) >= 400:
                break
            path = self._write_replay(v, case, rec)
            replay_paths.append(path)
            lines.append(f"VIOLATION property={self.pid} replay={path}")
        distinct = len(self.idents) if self.idents else len(self.signatures)
        status = "held"
        if self.violations:
            status = "violated"
        elif self.inconclusive:
            status = "inconclusive"
        elif self.evaluations < min_cases or distinct < 2:
            status = "inconclusive"
            self.inconclusive.append(
                f"only {self.evaluations} cases / {distinct} distinct exercised the property (minimum {min_cases})",
            )
        cov = {
            "evaluations": max(int(self.evaluations), 0),
            "distinct_nontrivial": distinct,
            "rule": rule,
            "samples": self.samples or ["<no case reached the oracle>"],
            "exhaustive": False,
            "distinct_classes": len(self.signatures),
            "runs": self.runs,
            "discarded_preconditions": dict(self.discarded),
            "monitor_events": dict(self.counters),
            "monitors": self.monitors,
            "reach": dict(sorted(self.reach.items(), key=lambda kv: -kv[1])[:60]),
            "known_findings_observed": self.known_seen,
            "status": status,
            "inconclusive_reasons": self.inconclusive[:10],
            "violation_keys": sorted(seen_keys)[:50],
        }
        if coverage_extra:
            cov.update(coverage_extra)
        cov.update(self.extra)
        ev = {
            "property_id": self.pid,
            "tier": self.tier,
            "seed": int(self.seed),
            "level": "exploration",
            "coverage": cov,
            "assumptions": self.assumptions,
            "wall_s": round(wall, 2),
            "violations": len(seen_keys),
        }
        # schema demands evaluations>=1 and distinct>=2: an empty run is reported as such but stays a valid file
        if cov["evaluations"] < 1:
            cov["evaluations_note"] = "no case reached the oracle"
        with open(os.path.join(EVIDENCE_DIR, f"{self.pid}.json"), "w", encoding="utf-8") as fh:
            json.dump(ev, fh, indent=1, default=str)
        for ln in self.known_lines:
            print(ln)
        for ln in lines:
            print(ln)
        print(
            f"[{self.pid}] tier={self.tier} seed={self.seed} status={status} runs={self.runs} "
            f"cases={self.evaluations} distinct={distinct} violations={len(seen_keys)} "
            f"known={len(self.known_seen)} wall={wall:.1f}s",
        )
        if status == "violated":
            for v, _c, _r in self.violations[:12]:
                print(f"   - {v.rule} @ {v.where} :: {json.dumps(v.detail, default=str)[:300]}")
            return 1
        if status == "inconclusive":
            for r in self.inconclusive[:5]:
                print(f"INCONCLUSIVE property={self.pid} reason={r}")
            return 2
        return 0

    def _write_replay(self, v: Viol, case: Case | None, rec: dict | None) -> str:
        d = os.path.join(REPLAY_DIR, self.pid)
        os.makedirs(d, exist_ok=True)
        body = {
            "property": self.pid,
            "rule": v.rule,
            "where": v.where,
            "detail": v.detail,
            "seed": self.seed,
            "tier": self.tier,
            "case": _case_dict(case) if case else None,
            "observed": _rec_excerpt(rec) if rec else None,
        }
        digest = hashlib.sha256(json.dumps(body, sort_keys=True, default=str).encode()).hexdigest()[:16]
        path = os.path.join(d, f"{digest}.json")
        with open(path, "w", encoding="utf-8") as fh:
            json.dump(body, fh, indent=1, default=str)
        return path


def _case_dict(c: Case) -> dict:
    d = asdict(c)
    d.pop("meta", None)
    return d


def _rec_excerpt(rec: dict) -> dict:
    out = {k: rec.get(k) for k in ("cid", "outcome", "exc", "argv", "hashseed", "digest")}
    tree = rec.get("tree") or {}
    out["tree"] = {k: (v if len(v) < 6000 else v[:6000] + "...<cut>") for k, v in list(tree.items())[:40]}
    out["logs"] = (rec.get("logs") or [])[:30]
    return out


def _shape_matches(v: Viol, exp: dict) -> bool:
    if exp.get("rule") and not re.fullmatch(exp["rule"], v.rule):
        return False
    if exp.get("where") and not re.search(exp["where"], v.where):
        return False
    for k, pat in (exp.get("detail") or {}).items():
        if not re.search(pat, str(v.detail.get(k, ""))):
            return False
    return True


def parse_args(argv: list[str]):
    import argparse

    ap = argparse.ArgumentParser()
    ap.add_argument("pid")
    ap.add_argument("--tier", default=os.environ.get("VERIF_TIER", "quick"))
    ap.add_argument("--seed", type=int, default=int(os.environ.get("VERIF_SEED", "0") or 0))
    ap.add_argument("--replay", default=None)
    a = ap.parse_args(argv)
    if a.tier not in ("quick", "thorough"):
        a.tier = "quick"
    return a


def rng_for(seed: int, *parts) -> "random.Random":
    import random

    return random.Random(f"{seed}|" + "|".join(str(p) for p in parts))


def noise_opts(seed: int, pid: str, key) -> list[str]:
    """Options the property does not talk about, drawn per case from a stream of their own: a docstring style, a type
    source preference, a warning setting (the generated sources carry plain-text docstrings without types at most)."""
    rng = rng_for(seed, pid, "noise-options", key)
    out: list[str] = []
    if rng.random() < 0.6:
        out += ["--docstyle", rng.choice(["plaintext", "google", "numpydoc", "rest"])]
    if rng.random() < 0.35:
        out += ["-tsp", rng.choice(["code", "docstring"])]
    if rng.random() < 0.35:
        out += ["-tsw", rng.choice(["warn", "ignore"])]
    return out


def stderr(*a) -> None:
    print(*a, file=sys.stderr)


# --------------------------------------------------------------------------------------------------
# standard flow: run cases, judge records, replay
# --------------------------------------------------------------------------------------------------


def drive(chk: Check, cases: list[Case], judge, per_proc: int = 4, steps="reach", discard_nonok: bool = True):
    """Run ``cases`` (grouped per hash seed into subprocess batches) and hand every record to ``judge``.

    judge(case, rec) -> list[Viol]; it calls chk.case_ok(...) for every declaration-level case it judged.
    A run that did not complete is not judged here (that is C01's subject): it is counted as discarded.
    """
    by_seed: dict = {}
    for c in cases:
        by_seed.setdefault(str(c.hashseed), []).append(c)
    batches = []
    for _hs, cs in by_seed.items():
        batches += runner.chunk(cs, per_proc)
    results = runner.run_many(batches, steps=steps)
    pairs = []
    for batch, recs, mon, err in results:
        if err:
            chk.runner_error(err)
            continue
        for case, rec in zip(batch, recs, strict=True):
            chk.note_run(rec, mon)
            pairs.append((case, rec))
            if discard_nonok and rec["outcome"] != "ok":
                e = rec.get("exc") or {}
                chk.discarded[f"{rec['outcome']}:{e.get('type')}@{e.get('tool_function')}"] += 1
                continue
            try:
                viols = judge(case, rec)
            except Exception as ex:  # a bug in the oracle is never a verdict on the tool
                import traceback

                chk.inconc(f"oracle raised on case {case.cid}: {ex!r} {traceback.format_exc()[-600:]}")
                continue
            for v in viols:
                chk.violation(v, case, rec)
    optsets: dict = {}
    for c in cases:
        k = " ".join(c.opts) or "(none)"
        optsets[k] = optsets.get(k, 0) + 1
    chk.extra["option_sets_run"] = dict(sorted(optsets.items()))
    total = len(cases)
    nd = sum(chk.discarded.values())
    if total and nd > max(2, total // 5):
        chk.inconc(f"{nd} of {total} runs did not complete and could not be judged: {dict(chk.discarded)}")
    return pairs


def generic_replay(path: str, gen, judge_factory) -> int:
    """Re-execute the case stored in a replay file (regenerated from seed/tier, matched by case id)."""
    with open(path, encoding="utf-8") as fh:
        rp = json.load(fh)
    cid = (rp.get("case") or {}).get("cid")
    tier, seed = rp.get("tier", "quick"), rp.get("seed", 0)
    cases = [c for c in gen(tier, seed) if c.cid == cid]
    if not cases:
        print(f"replay: case {cid!r} not found for tier={tier} seed={seed}")
        return 2
    chk = Check(rp["property"], tier, seed)
    judge = judge_factory(chk)
    recs, _mon, err = runner.run_batch(cases[:1], steps="off")
    if err:
        print("replay: runner error", err)
        return 2
    rec = recs[0]
    print("argv:", rec["argv"], "outcome:", rec["outcome"], rec.get("exc"))
    viols = judge(cases[0], rec) if rec["outcome"] == "ok" else []
    for v in viols:
        print(f"VIOLATION-DETAIL {v.rule} @ {v.where}: {json.dumps(v.detail, default=str)[:1000]}")
    for k, t in (rec.get("tree") or {}).items():
        if k.endswith(".sdsstub"):
            print("-----", k)
            print(t[:3000])
    return 1 if viols else 0
