"""Package model (ground truth first, Python sources second) for the structural properties.

The model is the oracle's knowledge of the input; it is never derived from the tool.  Everything the tool is
known to mishandle is behind a *feature* switch so that general workloads can avoid recorded findings
(DESIGN.md section 4.2) and probes can switch exactly one of them on.
"""

from __future__ import annotations

from dataclasses import dataclass, field


@dataclass
class Param:
    name: str
    anno: str | None = "int"
    default: str | None = None
    kind: str = "pk"  # po pk va ko vk


@dataclass
class Fn:
    name: str
    params: list = field(default_factory=list)
    ret: str | None = "None"  # None = un-annotated
    body: str = "..."
    role: str = "func"  # func | inst | static | class | prop
    doc: str | None = None
    decorators: list = field(default_factory=list)
    tag: str | None = None  # unique token identifying this very definition (C17)
    setter: bool = False  # property with a setter (an overloaded definition without implementation for the type checker)
    overloads: int = 0  # number of '@overload' variants written in front of the implementation (methods only)


@dataclass
class Attr:
    name: str
    anno: str | None = "int"
    value: str | None = "1"


@dataclass
class Cls:
    name: str
    bases: list = field(default_factory=list)  # python expressions as written
    cattrs: list = field(default_factory=list)
    ctor: Fn | None = None
    iattrs: list = field(default_factory=list)
    methods: list = field(default_factory=list)
    nested: list = field(default_factory=list)
    doc: str | None = None
    is_exception: bool = False
    iattr_form: str = "plain"  # how the constructor assigns the instance attributes: plain | tuple (unpacking) | chain (a = b = v)
    order: tuple | None = None  # order of the member sections in the source (None: attributes, constructor, nested, methods)


@dataclass
class En:
    name: str
    members: list = field(default_factory=list)
    doc: str | None = None


@dataclass
class Mod:
    pkg: tuple  # package path, e.g. ("pk", "sub")
    name: str
    imports: list = field(default_factory=list)  # source lines
    decls: list = field(default_factory=list)
    doc: str | None = None
    extra: str = ""  # raw source appended verbatim

    @property
    def qname(self) -> str:
        return ".".join((*self.pkg, self.name))

    @property
    def path(self) -> str:
        return "/".join((*self.pkg, self.name)) + ".py"


@dataclass
class Reexport:
    form: str  # name | star | modalias
    module: str  # dotted absolute module name, e.g. pk.sub.m
    name: str | None = None
    alias: str | None = None
    style: str = "rel"  # rel | abs


@dataclass
class Pkg:
    root: str = "pk"
    modules: list = field(default_factory=list)
    inits: dict = field(default_factory=dict)  # package path tuple -> list[Reexport]
    extra_files: dict = field(default_factory=dict)

    def packages(self) -> set:
        out = {(self.root,)}
        for m in self.modules:
            for i in range(1, len(m.pkg) + 1):
                out.add(tuple(m.pkg[:i]))
        for p in self.inits:
            for i in range(1, len(p) + 1):
                out.add(tuple(p[:i]))
        return out


# ------------------------------------------------------------------------------------------ rendering


def _doc(doc: str | None, indent: str) -> str:
    if doc is None:
        return ""
    return f"{indent}{doc!r}\n"


def render_params(fn: Fn) -> str:
    parts = []
    if fn.role in ("inst", "prop", "ctor"):
        parts.append("self")
    elif fn.role == "class":
        parts.append("cls")
    kinds = [p.kind for p in fn.params]
    for i, p in enumerate(fn.params):
        if p.kind == "ko" and (i == 0 or kinds[i - 1] not in ("va", "ko")):
            parts.append("*")
        s = {"va": "*", "vk": "**"}.get(p.kind, "") + p.name
        if p.anno:
            s += f": {p.anno}"
        if p.default is not None:
            s += f" = {p.default}" if p.anno else f"={p.default}"
        parts.append(s)
        if p.kind == "po" and (i + 1 == len(fn.params) or kinds[i + 1] != "po"):
            parts.append("/")
    return ", ".join(parts)


def render_fn(fn: Fn, indent: str = "") -> str:
    out = []
    if fn.overloads and fn.role in ("inst", "static", "class"):
        # the variants repeat the implementation's signature: one declaration for Python, one for the tool
        deco = {"inst": "", "static": f"{indent}@staticmethod\n", "class": f"{indent}@classmethod\n"}[fn.role]
        ret_ = f" -> {fn.ret}" if fn.ret is not None else " -> None"
        for _ in range(fn.overloads):
            out.append(f"{indent}@overload\n{deco}{indent}def {fn.name}({render_params(fn)}){ret_}: ...\n\n")
    for d in fn.decorators:
        out.append(f"{indent}@{d}\n")
    if fn.role == "static":
        out.append(f"{indent}@staticmethod\n")
    elif fn.role == "class":
        out.append(f"{indent}@classmethod\n")
    elif fn.role == "prop":
        out.append(f"{indent}@property\n")
    ret = f" -> {fn.ret}" if fn.ret is not None else ""
    name = "__init__" if fn.role == "ctor" else fn.name
    out.append(f"{indent}def {name}({render_params(fn)}){ret}:\n")
    out.append(_doc(fn.doc, indent + "    "))
    body = fn.body.split("\n")
    out.append("".join(f"{indent}    {ln}\n" for ln in body))
    return "".join(out)


DEFAULT_MEMBER_ORDER = ("cattrs", "ctor", "nested", "methods1", "methods2")


def render_cls(c: Cls, indent: str = "") -> str:
    bases = f"({', '.join(c.bases)})" if c.bases else ""
    out = [f"{indent}class {c.name}{bases}:\n", _doc(c.doc, indent + "    ")]
    sec: dict = {k: [] for k in DEFAULT_MEMBER_ORDER}
    for a in c.cattrs:
        s = f"{indent}    {a.name}"
        if a.anno:
            s += f": {a.anno}"
        if a.value is not None:
            s += f" = {a.value}"
        sec["cattrs"].append(s + "\n")
    if c.cattrs:
        sec["cattrs"].append("\n")
    if c.ctor is not None or c.iattrs:
        ctor = c.ctor or Fn("__init__", role="ctor")
        ctor.role = "ctor"
        lines = []
        if c.iattr_form == "tuple" and len(c.iattrs) >= 2:
            # all instance attributes assigned by unpacking: self.a, self.b = 0, 1
            lines.append(", ".join(f"self.{a.name}" for a in c.iattrs) + " = " + ", ".join(str(a.value if a.value is not None else "None") for a in c.iattrs))
        elif c.iattr_form == "chain" and len(c.iattrs) >= 2:
            lines.append(" = ".join(f"self.{a.name}" for a in c.iattrs) + f" = {c.iattrs[0].value if c.iattrs[0].value is not None else 'None'}")
        else:
            for a in c.iattrs:
                s = f"self.{a.name}"
                if a.anno:
                    s += f": {a.anno}"
                s += f" = {a.value if a.value is not None else 'None'}"
                lines.append(s)
        saved = ctor.body
        if lines:
            ctor.body = "\n".join(lines)
        elif ctor.body == "...":
            ctor.body = "pass"
        sec["ctor"].append(render_fn(ctor, indent + "    ") + "\n")
        ctor.body = saved
    for n in c.nested:
        if isinstance(n, En):
            sec["nested"].append(render_enum(n, indent + "    ") + "\n")
        else:
            sec["nested"].append(render_cls(n, indent + "    ") + "\n")
    half = (len(c.methods) + 1) // 2
    for k, m in enumerate(c.methods):
        dst = sec["methods1" if k < half else "methods2"]
        dst.append(render_fn(m, indent + "    ") + "\n")
        if m.role == "prop" and m.setter:
            dst.append(f"{indent}    @{m.name}.setter\n{indent}    def {m.name}(self, value: {m.ret or 'int'}) -> None:\n{indent}        ...\n\n")
    body = [x for k in (c.order or DEFAULT_MEMBER_ORDER) for x in sec[k]]
    if not body and c.doc is None:
        body.append(f"{indent}    pass\n")
    return "".join(out) + "".join(body)


def render_enum(e: En, indent: str = "") -> str:
    out = [f"{indent}class {e.name}(Enum):\n", _doc(e.doc, indent + "    ")]
    if not e.members and e.doc is None:
        out.append(f"{indent}    pass\n")
    for i, m in enumerate(e.members):
        out.append(f"{indent}    {m} = {i + 1}\n")
    return "".join(out)


def render_mod(m: Mod) -> str:
    out = []
    if m.doc is not None:
        out.append(f"{m.doc!r}\n\n")
    out.append("from __future__ import annotations\n")
    uses_enum = any(isinstance(d, En) for d in m.decls) or any(
        isinstance(d, Cls) and any(isinstance(n, En) for n in d.nested) for d in m.decls
    )
    if uses_enum:
        out.append("from enum import Enum\n")

    def _has_overloads(c) -> bool:
        return any(f.overloads for f in c.methods) or any(isinstance(n, Cls) and _has_overloads(n) for n in c.nested)

    if any(isinstance(d, Cls) and _has_overloads(d) for d in m.decls):
        out.append("from typing import overload\n")
    for ln in m.imports:
        out.append(ln + "\n")
    out.append("\n\n")
    for d in m.decls:
        if isinstance(d, Fn):
            out.append(render_fn(d) + "\n\n")
        elif isinstance(d, Cls):
            out.append(render_cls(d) + "\n\n")
        elif isinstance(d, En):
            out.append(render_enum(d) + "\n\n")
    out.append(m.extra)
    return "".join(out)


def render_reexport(pkgpath: tuple, r: Reexport) -> str:
    mod_parts = r.module.split(".")
    if r.style == "rel":
        # relative to the package owning the __init__
        assert tuple(mod_parts[: len(pkgpath)]) == tuple(pkgpath), (pkgpath, r.module)
        rel = mod_parts[len(pkgpath) :]
        if r.form == "modalias":
            head = "." + ".".join(rel[:-1])
            s = f"from {head} import {rel[-1]}"
            return s + (f" as {r.alias}" if r.alias else "")
        target = "." + ".".join(rel)
    else:
        if r.form == "modalias":
            s = f"from {'.'.join(mod_parts[:-1])} import {mod_parts[-1]}"
            return s + (f" as {r.alias}" if r.alias else "")
        target = r.module
    if r.form == "star":
        return f"from {target} import *"
    s = f"from {target} import {r.name}"
    return s + (f" as {r.alias}" if r.alias else "")


def render(pkg: Pkg, src_prefix: str = "src") -> dict:
    files = {}
    for p in sorted(pkg.packages()):
        lines = [render_reexport(p, r) for r in pkg.inits.get(p, [])]
        if getattr(pkg, "combine_imports", False):
            # one statement per source: "from .m import a as b, c, d" (the order of the names is kept)
            merged: dict = {}
            for ln in lines:
                head, _, names_ = ln.partition(" import ")
                if ln.startswith("from ") and names_ != "*":
                    merged.setdefault(head, []).append(names_)
                else:
                    merged.setdefault(ln, [])
            lines = [f"{head} import {', '.join(ns)}" if ns else head for head, ns in merged.items()]
        files[f"{src_prefix}/{'/'.join(p)}/__init__.py"] = "".join(ln + "\n" for ln in lines)
    for m in pkg.modules:
        files[f"{src_prefix}/{m.path}"] = render_mod(m)
    for k, v in pkg.extra_files.items():
        files[f"{src_prefix}/{k}"] = v
    for k in getattr(pkg, "drop_files", ()):  # e.g. the __init__.py of a directory that is to be a plain directory
        files.pop(f"{src_prefix}/{k}", None)
    for k in getattr(pkg, "bom_files", ()):  # written with a UTF-8 byte order mark (legal Python source)
        key = f"{src_prefix}/{k}"
        if isinstance(files.get(key), str):
            files[key] = {"hex": (b"\xef\xbb\xbf" + files[key].encode()).hex()}
    return files


# ------------------------------------------------------------------------------------------ ground-truth walk


@dataclass
class GDecl:
    kind: str  # function | class | enum | method | property | cattr | iattr | variant | nested-class | ctor
    module: Mod
    path: tuple  # names below the module, e.g. ("Cls", "meth")
    obj: object
    owner: "GDecl | None" = None

    @property
    def name(self) -> str:
        return self.path[-1]

    @property
    def id(self) -> str:
        return "/".join((*self.module.pkg, self.module.name, *self.path))

    @property
    def qname(self) -> str:
        return ".".join((*self.module.pkg, self.module.name, *self.path))


def walk(pkg: Pkg):
    """Every declaration of the package as a GDecl (pre-order)."""
    for m in pkg.modules:
        for d in m.decls:
            yield from _walk_decl(m, d, (), None)


def _walk_decl(m: Mod, d, prefix: tuple, owner):
    if isinstance(d, Fn):
        yield GDecl("function", m, (*prefix, d.name), d, owner)
    elif isinstance(d, En):
        g = GDecl("enum", m, (*prefix, d.name), d, owner)
        yield g
        for v in d.members:
            yield GDecl("variant", m, (*prefix, d.name, v), v, g)
    elif isinstance(d, Cls):
        g = GDecl("class" if not prefix else "nested-class", m, (*prefix, d.name), d, owner)
        yield g
        p2 = (*prefix, d.name)
        seen = set()
        for a in d.cattrs:
            if a.name not in seen:
                seen.add(a.name)
                yield GDecl("cattr", m, (*p2, a.name), a, g)
        if d.ctor is not None or d.iattrs:
            yield GDecl("ctor", m, (*p2, "__init__"), d.ctor, g)
        for a in d.iattrs:
            if a.name not in seen:
                seen.add(a.name)
                yield GDecl("iattr", m, (*p2, a.name), a, g)
        for n in d.nested:
            yield from _walk_decl(m, n, p2, g)
        for f in d.methods:
            yield GDecl("property" if f.role == "prop" else "method", m, (*p2, f.name), f, g)


# ------------------------------------------------------------------------------------------ privacy reference (C04)


def is_private_name(name: str) -> bool:
    """Private by Python convention: leading underscore and not a dunder name."""
    return name.startswith("_") and not (name.startswith("__") and name.endswith("__") and len(name) > 4)


def star_exports(name: str) -> bool:
    """``from m import *`` (no __all__) binds the names that do not start with an underscore."""
    return not name.startswith("_")


@dataclass
class Publicity:
    public: bool | None
    via: str  # "own-path" | "reexport:<pkg>" | "private"
    public_name: str  # the Python name under which it is public (alias for aliased re-exports)
    reexport_pkgs: list  # package paths (tuples) whose __init__ re-exports the top-level declaration publicly


def publicity(pkg: Pkg) -> dict:
    """id -> Publicity for every declaration, by the convention of C04's statement.

    ``public`` is three-valued: True (must be in the stubs / JSON public), False (must not), None (the statement
    allows both: the only re-exports under a public name sit in the __init__ of a *private* package -- the
    statement's exception "unless a package __init__ re-exports it under a public name" does not say whether that
    package has to be public itself, so neither outcome is demanded).
    """
    top_re: dict = {}  # (module qname, top-level name) -> [(pkgpath, shown name, init is on a public path)]
    mod_re: dict = {}  # module qname -> [(pkgpath, shown, init public)]
    pkg_private = {p: any(is_private_name(seg) for seg in p) for p in pkg.packages()}
    mods = {m.qname: m for m in pkg.modules}
    for p, res in pkg.inits.items():
        init_public = not pkg_private.get(tuple(p), False)
        for r in res:
            if r.form == "name":
                shown = r.alias or r.name
                if not is_private_name(shown):
                    top_re.setdefault((r.module, r.name), []).append((tuple(p), shown, init_public))
            elif r.form == "star":
                m = mods.get(r.module)
                if m is not None:
                    for d in m.decls:
                        if star_exports(d.name):
                            top_re.setdefault((r.module, d.name), []).append((tuple(p), d.name, init_public))
            elif r.form == "modalias":
                shown = r.alias or r.module.split(".")[-1]
                if not is_private_name(shown):
                    mod_re.setdefault(r.module, []).append((tuple(p), shown, init_public))
    out = {}
    for g in walk(pkg):
        m = g.module
        path_private = any(is_private_name(seg) for seg in (*m.pkg, m.name))
        top = g.path[0]
        below_private = any(is_private_name(seg) for seg in g.path[1:])
        res = top_re.get((m.qname, top), [])
        pub_res = [(p, shown) for p, shown, ok in res if ok]
        amb_res = [(p, shown) for p, shown, ok in res if not ok]
        mres = mod_re.get(m.qname, [])
        mod_pub = [x for x in mres if x[2]]
        mod_amb = [x for x in mres if not x[2]]
        if below_private:
            out[g.id] = Publicity(False, "private", g.name, [])
        elif pub_res:
            out[g.id] = Publicity(True, "reexport", pub_res[0][1] if len(g.path) == 1 else g.name, [p for p, _ in pub_res] + [p for p, _ in amb_res])
        elif not path_private and not is_private_name(top):
            out[g.id] = Publicity(True, "own-path", g.name, [p for p, _ in amb_res])
        elif mod_pub and not is_private_name(top):
            out[g.id] = Publicity(True, "module-alias", g.name, [p for p, _ in amb_res])
        elif amb_res or (mod_amb and not is_private_name(top)):
            out[g.id] = Publicity(None, "reexport-in-private-package", g.name, [p for p, _ in amb_res])
        else:
            out[g.id] = Publicity(False, "private", g.name, [])
    return out


# ------------------------------------------------------------------------------------------ random builder

_WORDS = ["apple", "bravo", "cargo", "delta", "ember", "fable", "gamma", "hotel", "india", "joker", "kilo", "lemon",
          "mango", "north", "ocean", "piano", "quilt", "river", "sugar", "tango", "umbra", "vivid", "whale", "xenon", "yacht", "zebra"]


class Names:
    """Unique, recognisable names: every declaration gets its own token so that stubs can be searched for it."""

    def __init__(self, rng, p_multiword: float = 0.0) -> None:
        self.rng = rng
        self.n = 0
        self.last: dict = {}
        self.p_multiword = p_multiword

    def fresh(self, prefix: str = "", private: bool = False, dunder: bool = False, cls: bool = False) -> str:
        w = _WORDS[self.n % len(_WORDS)] + str(self.n // len(_WORDS) or "")
        self.n += 1
        base = f"{prefix}{w}"
        # hostile to prefix/suffix heuristics: sometimes a name extends an earlier name of the same kind
        prev = self.last.get(prefix)
        if prev and self.rng.random() < 0.25:
            base = (prev + "x" + str(self.n)) if self.rng.random() < 0.5 else ("q" + str(self.n) + prev)
        self.last[prefix] = base
        if not cls and not dunder and self.p_multiword and self.rng.random() < self.p_multiword:
            # ordinary snake_case names of several words (they change under naming conversion), some with a number part
            more = [_WORDS[self.rng.randrange(len(_WORDS))] for _ in range(self.rng.choice([1, 1, 2]))]
            if self.rng.random() < 0.2:
                more.append(str(self.rng.randint(0, 99)))
            base = "_".join([base, *more])
        if cls:
            base = base[0].upper() + base[1:]
        if dunder:
            return f"__{base}__"
        if private:
            return "_" + base
        return base


ALL_REEXPORT_FORMS = [f"{k}-{s}-{w}" for k in ("name", "alias", "star", "modalias") for s in ("rel", "abs") for w in ("parent", "ancestor")]


@dataclass
class GenCfg:
    max_depth: int = 3
    p_private_pkg: float = 0.2
    p_private_mod: float = 0.25
    p_private_decl: float = 0.25
    p_dunder: float = 0.08
    p_overload: float = 0.1  # share of methods (instance, static, class) written with two '@overload' variants before the implementation
    p_multiword: float = 0.3  # share of snake_case names of several words (functions, parameters, attributes, modules, packages, aliases)
    p_reexport: float = 0.35
    reexport_forms: tuple = ("name-rel-parent", "name-abs-parent", "name-abs-ancestor", "alias-rel-parent", "alias-abs-ancestor", "star-rel-parent", "modalias-rel-parent")
    n_modules: tuple = (3, 7)
    n_decls: tuple = (4, 10)
    nested_classes: bool = True
    enums: bool = True
    private_enums: bool = False
    cross_refs: bool = True
    inheritance: bool = False
    docs: bool = False
    foreign: bool = False
    private_refs: bool = False  # signatures may use classes with a private name (of any module) as types
    local_foreign: bool = False  # plus a generated library next to the package (sub-modules, upper-case module name)
    local_foreign_lower: bool = False  # ... and its lower-case class names (they change under naming conversion)
    private_bases: bool = False  # public classes derive from private classes of their module and override some methods
    private_name_clashes: bool = False  # private members named like re-exported private module-level declarations
    iattr_forms: bool = True  # instance attributes assigned one by one, by tuple unpacking or by a chained assignment
    shuffle_members: bool = True  # the member sections of a class (attributes, constructor, nested classes, two halves of the methods) in any order
    shared_member_names: bool = False  # nested classes reuse member names of their outer class
    exception_namesakes: bool = False  # exception classes named like ordinary public classes of other modules (which have public subclasses)
    twins: bool = False  # modules with the same name (and some equal declaration names) in different packages
    twin_module_reexports: bool = False  # star / module-alias re-exports of a module whose name another module shares


def random_pkg(rng, cfg: GenCfg) -> Pkg:
    names = Names(rng, cfg.p_multiword)
    pkg = Pkg()
    # package tree
    pkgs = [("pk",)]
    for _ in range(rng.randint(1, 4)):
        parent = rng.choice(pkgs)
        if len(parent) >= cfg.max_depth:
            continue
        seg = names.fresh("p", private=rng.random() < cfg.p_private_pkg)
        pkgs.append((*parent, seg))
    # every package gets >= 1 module
    n_mod = rng.randint(*cfg.n_modules)
    homes = list(pkgs) + [rng.choice(pkgs) for _ in range(max(0, n_mod - len(pkgs)))]
    public_classes = []  # (module, class name) usable as types
    for home in homes:
        m = Mod(pkg=home, name=names.fresh("m", private=rng.random() < cfg.p_private_mod))
        if cfg.docs:
            m.doc = f"Module {m.name} docs."
        for _ in range(rng.randint(*cfg.n_decls)):
            kind = rng.choice(["fn", "fn", "cls", "cls", "enum" if cfg.enums else "fn"])
            if kind == "enum" and not cfg.private_enums and any(is_private_name(s_) for s_ in (*home, m.name)):
                kind = "fn"  # enums are emitted without a publicity test (recorded finding): keep them on public paths
            priv = rng.random() < cfg.p_private_decl
            if kind == "fn":
                m.decls.append(_random_fn(rng, names, priv, "func", public_classes, m, cfg))
            elif kind == "cls":
                c = _random_cls(rng, names, priv, public_classes, m, cfg, depth=0)
                m.decls.append(c)
                if not priv or cfg.private_refs:
                    public_classes.append((m, c.name))
            else:
                epriv = priv and cfg.private_enums
                e = En(names.fresh("E", private=epriv, cls=True), [names.fresh("V").upper() for _ in range(rng.randint(0, 4))])
                m.decls.append(e)
                if not e.name.startswith("_"):
                    public_classes.append((m, e.name))  # enums are types too
        if cfg.docs and rng.random() < 0.4:
            # the module ends with a documented declaration that has no member at all
            if cfg.enums and rng.random() < 0.4 and not any(is_private_name(s_) for s_ in (*home, m.name)):
                m.decls.append(En(names.fresh("E", cls=True), [], doc="An enum without members."))
            else:
                m.decls.append(Cls(names.fresh("C", cls=True), doc="A class without members."))
                public_classes.append((m, m.decls[-1].name))  # usable as a type elsewhere, like every public class
        pkg.modules.append(m)
    if cfg.twins and len(pkgs) > 1:
        for m in list(pkg.modules):
            if rng.random() < 0.35:
                others = [p for p in pkgs if p != m.pkg and not any(x.pkg == p and x.name == m.name for x in pkg.modules)]
                if not others:
                    continue
                twin = Mod(pkg=rng.choice(others), name=m.name)
                for d in m.decls:
                    if isinstance(d, Fn) and rng.random() < 0.7:
                        twin.decls.append(Fn(d.name, [Param(names.fresh("tw"), "int")], "int"))
                    elif isinstance(d, Cls) and rng.random() < 0.7:
                        twin.decls.append(Cls(d.name, methods=[Fn(f.name, [Param(names.fresh("tw"), "int")], "int", role="inst") for f in d.methods[:2] if f.role == "inst"], cattrs=[Attr(names.fresh("twa"), "int", "1")]))
                twin.decls.append(Fn(names.fresh("f")))
                pkg.modules.append(twin)
    # re-exports
    for m in pkg.modules:
        for d in m.decls:
            if isinstance(d, En):
                continue  # enums carry no re-export data in the tool's model; keep them where they are
            if rng.random() < cfg.p_reexport:
                form = rng.choice(cfg.reexport_forms)
                if not cfg.twin_module_reexports and sum(1 for x in pkg.modules if x.name == m.name) > 1:
                    # re-exports written relative to the package, and whole-module re-exports, are matched by the bare
                    # module name (recorded finding): same-named modules only get absolute name re-exports
                    form = rng.choice(["name-abs-parent", "alias-abs-parent", "name-abs-ancestor"])
                _add_reexport(rng, names, pkg, m, d, form)
    if cfg.private_bases:
        _add_private_bases(rng, names, pkg)
    if cfg.private_name_clashes:
        _add_private_name_clashes(rng, pkg)
    if cfg.exception_namesakes:
        _add_exception_namesakes(rng, pkg)
    if cfg.foreign and cfg.local_foreign:
        pkg.extra_files.update(LOCAL_FOREIGN_FILES)
    pkg.combine_imports = rng.random() < 0.5
    return pkg


def _add_exception_namesakes(rng, pkg: Pkg) -> None:
    """Exception hierarchies (left out of the stubs by design) whose classes carry the names of ordinary public classes of other
    modules - analysed before and after them - while the ordinary classes have public subclasses of their own."""
    tops = [(m, d) for m in pkg.modules for d in m.decls if isinstance(d, Cls) and not d.is_exception and not is_private_name(d.name) and not d.bases]
    rng.shuffle(tops)
    for k, (m, c) in enumerate(tops[:2]):
        if any(isinstance(d, (Cls, Fn, En)) and d.name in (f"Sub{c.name}", ) for d in m.decls):
            continue
        m.decls.append(Cls(f"Sub{c.name}", bases=[c.name], methods=[Fn(f"own_of_sub_{k}", [], "int", role="inst")], cattrs=[Attr(f"kept_attr_{k}", "int", "1")]))
        modname = f"{'aa' if k == 0 else 'zz'}_errors{k}"
        if any(x.pkg == m.pkg and x.name == modname for x in pkg.modules):
            continue
        namesake = Cls(c.name, bases=["Exception"], methods=[Fn("explain", [], "str", role="inst")], is_exception=True)
        derived = Cls(f"{c.name}Failure", bases=[c.name], is_exception=True)
        pkg.modules.append(Mod(m.pkg, modname, decls=[namesake, derived]))
    # ... and enums that carry the name of an ordinary class of another module (analysed before / after it) or of a class nested
    # in a class of another module
    if cfg_enums := any(isinstance(d, En) for m in pkg.modules for d in m.decls):
        for k, (m, c) in enumerate(tops[2:4]):
            if any(is_private_name(seg) for seg in m.pkg):
                continue
            modname = f"{'aa' if k == 0 else 'zz'}_kinds{k}"
            if any(x.pkg == m.pkg and x.name == modname for x in pkg.modules):
                continue
            decls = [En(c.name, [f"KIND_A{k}", f"KIND_B{k}"])]
            if c.nested and not is_private_name(c.nested[0].name) and isinstance(c.nested[0], Cls):
                decls.append(En(c.nested[0].name, [f"INNER_A{k}"]))
            pkg.modules.append(Mod(m.pkg, modname, decls=decls))


def _add_private_bases(rng, names, pkg: Pkg) -> None:
    """A private base class in front of some public classes; the subclass overrides one of its (multi-word) methods."""
    for m in pkg.modules:
        for d in list(m.decls):
            if isinstance(d, Cls) and not d.bases and not is_private_name(d.name) and rng.random() < 0.25:
                base = Cls("_Base" + d.name)
                shared = names.fresh("over_ridden_")
                base.methods = [Fn(shared, [Param(names.fresh("bp"), "int")], "int", role="inst"), Fn(names.fresh("base_only_"), [], "int", role="inst")]
                d.methods.append(Fn(shared, [Param(names.fresh("sp"), "int")], "int", role="inst"))
                if rng.random() < 0.6:
                    # the subclass hides an inherited method / property behind a plain attribute of the same name
                    hidden = names.fresh("hidden_by_attr_")
                    base.methods.append(Fn(hidden, [], "int", role=rng.choice(["inst", "prop"])))
                    d.cattrs.append(Attr(hidden, "int", "0"))
                if rng.random() < 0.4:
                    # an inherited method whose Python name is the converted form of one of the subclass's attributes
                    attr = names.fresh("retry_limit_")
                    parts = attr.split("_")
                    camel = parts[0] + "".join(x[:1].upper() + x[1:] for x in parts[1:] if x)
                    d.cattrs.append(Attr(attr, "int", "3"))
                    if camel != attr:
                        base.methods.append(Fn(camel, [], "int", role="inst"))
                if rng.random() < 0.5:
                    # a public-named class nested in the private base (it is shown in every public subclass) with
                    # private attributes and a private method of its own
                    inner = Cls(names.fresh("Settings", cls=True))
                    inner.cattrs = [Attr(names.fresh("token", private=True), "str", '"t"'), Attr(names.fresh("shown"), "int", "1")]
                    inner.iattrs = [Attr(names.fresh("cache", private=True), "int", "0")]
                    inner.methods = [Fn(names.fresh("secret", private=True), [], "int", role="inst"), Fn(names.fresh("visible"), [], "int", role="inst")]
                    base.nested.append(inner)
                d.bases.append(base.name)
                m.decls.insert(m.decls.index(d), base)


def _add_private_name_clashes(rng, pkg: Pkg) -> None:
    """A private function / class that an __init__ re-exports under a public alias, and - earlier or later in the same
    module - a public class with a private member of the same name (which stays private)."""
    for m in pkg.modules:
        aliased = [r for res in pkg.inits.values() for r in res if r.form == "name" and r.module == m.qname and r.alias and is_private_name(r.name or "")]
        publics = [d for d in m.decls if isinstance(d, Cls) and not is_private_name(d.name)]
        for r in aliased:
            if not publics or rng.random() < 0.3:
                continue
            target = next((d for d in m.decls if getattr(d, "name", None) == r.name), None)
            host = rng.choice(publics)
            if target is None or host is target:
                continue
            if isinstance(target, Fn) and not any(f.name == r.name for f in host.methods):
                host.methods.append(Fn(r.name, [Param("clashparam", "int")], "int", role="inst"))
            elif isinstance(target, Cls) and not any(c.name == r.name for c in host.nested):
                host.nested.append(Cls(r.name, methods=[Fn("clashsecret", role="inst")]))
    # ... and a second private declaration of the same bare name in a sibling module, imported by the same __init__ AFTER the
    # aliased re-export and without alias (it stays private; the alias belongs to the first one)
    k = 0
    for p, res in list(pkg.inits.items()):
        for r in list(res):
            if not (r.form == "name" and r.alias and is_private_name(r.name or "") and not is_private_name(r.alias)) or rng.random() < 0.5:
                continue
            src = next((x for x in pkg.modules if x.qname == r.module), None)
            target = next((d for d in (src.decls if src else []) if getattr(d, "name", None) == r.name), None)
            if target is None or any(r2 is not r and r2.form == "name" and r2.name == r.name for r2 in res):
                continue
            k += 1
            modname = f"_samebare{k}"
            if any(x.pkg == tuple(p) and x.name == modname for x in pkg.modules):
                continue
            twin = Cls(r.name, methods=[Fn("of_the_second_one", role="inst")]) if isinstance(target, Cls) else Fn(r.name, [Param("second_one", "int")], "int")
            pkg.modules.append(Mod(tuple(p), modname, decls=[twin]))
            res.insert(res.index(r) + 1, Reexport("name", ".".join([*p, modname]), r.name, None, "rel"))


def _add_reexport(rng, names, pkg: Pkg, m: Mod, d, form: str) -> None:
    kind, style, where = form.split("-")
    if where == "parent":
        target = m.pkg
    else:
        if len(m.pkg) < 2:
            target = m.pkg
        else:
            target = m.pkg[: rng.randint(1, len(m.pkg) - 1)]
    lst = pkg.inits.setdefault(tuple(target), [])
    if kind in ("name", "alias") and any(r.form == "name" and (r.alias or r.name) == d.name for r in lst):
        return  # one public name per package namespace: a second import of the same name would shadow the first
    if kind == "name":
        lst.append(Reexport("name", m.qname, d.name, None, style))
    elif kind == "alias":
        lst.append(Reexport("name", m.qname, d.name, names.fresh("al", cls=isinstance(d, Cls)), style))
    elif kind == "star":
        if not any(r.form == "star" and r.module == m.qname for r in lst):
            lst.append(Reexport("star", m.qname, None, None, style))
    elif kind == "modalias":
        if not any(r.form == "modalias" and r.module == m.qname for r in lst):
            lst.append(Reexport("modalias", m.qname, None, names.fresh("ma"), style))


FOREIGN = [("pathlib", "Path"), ("decimal", "Decimal"), ("fractions", "Fraction"), ("argparse", "Namespace"), ("random", "Random"), ("threading", "Thread"), ("logging", "Logger"), ("string", "Template"), ("pathlib", "PurePath")]


# a library next to the analysed package: class names in every case style, sub-package, sub-module, upper-case module
LOCAL_FOREIGN = {
    "extlib": ["Alpha", "zeta", "mid_point", "_Under"],
    "extlib.parts": ["Mid", "node", "Zulu"],
    "extlib.parts.deep": ["Deep", "low_name"],
    "extlib.Upper": ["Thing", "alpha_thing"],
    "extlib.aaa": ["First"],
    "extlib._hidden": ["Inner", "low_inner"],
    "extlib.parts._impl": ["Impl"],
}
LOCAL_FOREIGN_FILES = {
    "extlib/__init__.py": "".join(f"class {n}: ...\n\n\n" for n in LOCAL_FOREIGN["extlib"]),
    "extlib/parts/__init__.py": "".join(f"class {n}: ...\n\n\n" for n in LOCAL_FOREIGN["extlib.parts"]),
    "extlib/parts/deep.py": "".join(f"class {n}: ...\n\n\n" for n in LOCAL_FOREIGN["extlib.parts.deep"]),
    "extlib/Upper.py": "".join(f"class {n}: ...\n\n\n" for n in LOCAL_FOREIGN["extlib.Upper"]),
    "extlib/aaa.py": "".join(f"class {n}: ...\n\n\n" for n in LOCAL_FOREIGN["extlib.aaa"]),
    "extlib/_hidden.py": "".join(f"class {n}: ...\n\n\n" for n in LOCAL_FOREIGN["extlib._hidden"]),
    "extlib/parts/_impl.py": "".join(f"class {n}: ...\n\n\n" for n in LOCAL_FOREIGN["extlib.parts._impl"]),
}


def _type_ref(rng, public_classes, m: Mod, cfg: GenCfg) -> str:
    if cfg.foreign and rng.random() < 0.15:
        if cfg.local_foreign and rng.random() < 0.6:
            mod = rng.choice(sorted(LOCAL_FOREIGN))
            name = rng.choice([n for n in LOCAL_FOREIGN[mod] if cfg.local_foreign_lower or (n[0].isupper() and "_" not in n)])
        else:
            mod, name = rng.choice(FOREIGN)
        line = f"from {mod} import {name}"
        if line not in m.imports:
            m.imports.append(line)
        return name
    if cfg.cross_refs and public_classes and rng.random() < 0.35:
        src, cname = rng.choice(public_classes)
        if src is not m:
            line = f"from {src.qname} import {cname}"
            if line not in m.imports:
                m.imports.append(line)
        elif not any(isinstance(d, (Cls, En)) and d.name == cname for d in m.decls):
            return "int"
        return cname
    return rng.choice(["int", "str", "float", "bool", "list[int]", "dict[str, int]", "int | None"])


def _random_fn(rng, names, priv, role, public_classes, m, cfg) -> Fn:
    name = names.fresh("f", private=priv, dunder=(not priv and role != "func" and rng.random() < cfg.p_dunder))
    params = [Param(names.fresh("a"), _type_ref(rng, public_classes, m, cfg), rng.choice([None, None, "None"]) and None) for _ in range(rng.randint(0, 3))]
    ret = rng.choice(["None", "int", "str", "tuple[int, str]"]) if role != "prop" else rng.choice(["int", "str"])
    if role == "prop":
        params = []
    fn = Fn(name, params, ret, role=role)
    if role == "prop" and rng.random() < 0.4:
        fn.setter = True
    if cfg.docs:
        fn.doc = f"Doc of {name}."
    return fn


def _random_cls(rng, names, priv, public_classes, m, cfg, depth) -> Cls:
    c = Cls(names.fresh("C", private=priv, cls=True))
    if cfg.docs:
        c.doc = f"Class {c.name} docs."
    for _ in range(rng.randint(0, 3)):
        c.cattrs.append(Attr(names.fresh("ca", private=rng.random() < cfg.p_private_decl), rng.choice(["int", "str"]), None))
        c.cattrs[-1].value = "1" if c.cattrs[-1].anno == "int" else '"s"'
    if rng.random() < 0.6:
        ps = [Param(names.fresh("cp"), "int") for _ in range(rng.randint(0, 2))]
        c.ctor = Fn("__init__", ps, "None", role="ctor")
        for _ in range(rng.randint(0, 2)):
            c.iattrs.append(Attr(names.fresh("ia", private=rng.random() < cfg.p_private_decl), "int", "0"))
    for _ in range(rng.randint(0, 4)):
        role = rng.choice(["inst", "inst", "static", "class", "prop"])
        c.methods.append(_random_fn(rng, names, rng.random() < cfg.p_private_decl, role, public_classes, m, cfg))
        if role in ("inst", "static", "class") and rng.random() < cfg.p_overload:
            c.methods[-1].overloads = 2
    if cfg.nested_classes and depth < 2 and rng.random() < 0.35:
        for _ in range(rng.choice([1, 1, 2, 3])):
            inner = _random_cls(rng, names, rng.random() < cfg.p_private_decl, public_classes, m, cfg, depth + 1)
            if cfg.shared_member_names and rng.random() < 0.5:
                # the same attribute / method names in the outer and the nested class (each class is its own namespace)
                for a in c.cattrs[:2]:
                    if not any(x.name == a.name for x in inner.cattrs):
                        inner.cattrs.append(Attr(a.name, "str", '"n"'))
                for a in c.iattrs[:1]:
                    if not any(x.name == a.name for x in inner.iattrs + inner.cattrs):
                        inner.iattrs.append(Attr(a.name, "int", "1"))
                for f in c.methods[:1]:
                    if f.role == "inst" and not any(x.name == f.name for x in inner.methods):
                        inner.methods.append(Fn(f.name, [Param(names.fresh("sh"), "int")], "int", role="inst"))
            c.nested.append(inner)
    if cfg.iattr_forms:
        c.iattr_form = rng.choice(["plain", "plain", "tuple", "chain"])
    if cfg.shuffle_members and rng.random() < 0.6:
        order = list(DEFAULT_MEMBER_ORDER)
        rng.shuffle(order)
        c.order = tuple(order)
    return c


# ------------------------------------------------------------------------------------------ cross references (phase 3)


def ref_category(pkg: Pkg, pubs: dict, user_mod: Mod, target_mod: Mod, target) -> str:
    """How a reference from ``user_mod`` to the top-level class/enum ``target`` of ``target_mod`` is situated."""
    tid = "/".join((*target_mod.pkg, target_mod.name, target.name))
    pub = pubs[tid]
    if pub.public is not True:
        return "target-not-public"
    plain = False
    alias = False
    moved_module = False
    for _p, res in pkg.inits.items():
        for r in res:
            if r.module == target_mod.qname:
                if r.form == "name" and r.name == target.name:
                    if r.alias:
                        alias = True
                    else:
                        plain = True
                elif r.form in ("star", "modalias"):
                    moved_module = True
    same = user_mod is target_mod
    if alias:
        return "target-aliased"
    if moved_module:
        return "target-module-moved"
    if plain:
        return "target-moved-same-module" if same else "target-moved-other-module"
    return "plain-same-module" if same else "plain-other-module"


def assign_cross_refs(rng, pkg: Pkg, allowed: set, p: float = 0.4) -> dict:
    """Replace parameter annotations by references to classes/enums of the package whose category is allowed.
    Returns the count of references made per category."""
    pubs = publicity(pkg)
    targets = [(m, d) for m in pkg.modules for d in m.decls if isinstance(d, (Cls, En))]
    counts: dict = {}
    if not targets:
        return counts
    for m in pkg.modules:
        fns = []
        for d in m.decls:
            if isinstance(d, Fn):
                fns.append(d)
            elif isinstance(d, Cls):
                fns += [f for f in d.methods if f.role != "prop"]
        for f in fns:
            for prm in f.params:
                if rng.random() > p:
                    continue
                tm, t = rng.choice(targets)
                if tm is m and m.decls.index(t) > max((m.decls.index(d) for d in m.decls if d is f or (isinstance(d, Cls) and f in d.methods)), default=0) and False:
                    continue
                cat = ref_category(pkg, pubs, m, tm, t)
                if cat not in allowed:
                    continue
                if tm is not m:
                    line = f"from {tm.qname} import {t.name}"
                    if line not in m.imports:
                        m.imports.append(line)
                prm.anno = t.name
                prm.default = None
                counts[cat] = counts.get(cat, 0) + 1
        # class attributes and results as further reference positions
        for d in m.decls:
            if not isinstance(d, Cls):
                continue
            for a in d.cattrs:
                if rng.random() > p / 2:
                    continue
                tm, t = rng.choice(targets)
                if t is d:
                    continue
                cat = ref_category(pkg, pubs, m, tm, t)
                if cat not in allowed:
                    continue
                if tm is not m:
                    line = f"from {tm.qname} import {t.name}"
                    if line not in m.imports:
                        m.imports.append(line)
                a.anno = t.name
                a.value = None
                counts[cat + "@attr"] = counts.get(cat + "@attr", 0) + 1
            for f in d.methods:
                if f.role == "prop" or rng.random() > p / 3:
                    continue
                tm, t = rng.choice(targets)
                cat = ref_category(pkg, pubs, m, tm, t)
                if cat not in allowed:
                    continue
                if tm is not m:
                    line = f"from {tm.qname} import {t.name}"
                    if line not in m.imports:
                        m.imports.append(line)
                f.ret = t.name
                counts[cat + "@result"] = counts.get(cat + "@result", 0) + 1
    return counts
