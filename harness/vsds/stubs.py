"""Parsed view of one run's output tree: stub files through the independent recogniser, API JSON through json."""

from __future__ import annotations

import json

from . import sds


class StubSet:
    def __init__(self, tree: dict) -> None:
        self.tree = tree
        self.files: dict[str, sds.Module] = {}
        self.errors: dict[str, sds.SdsError] = {}
        self.json_files = [k for k in tree if k.endswith(".json")]
        for rel, text in tree.items():
            if rel.endswith(".sdsstub"):
                m, e = sds.try_parse(text)
                if e is not None:
                    self.errors[rel] = e
                else:
                    self.files[rel] = m
        self._index = None

    def api(self, name: str | None = None):
        for k in self.json_files:
            if name is None or k == name:
                return json.loads(self.tree[k])
        return None

    def all_decls(self):
        for rel, m in self.files.items():
            for d in m.walk():
                yield rel, m, d

    def index(self):
        """(python module path, declaration path by Python names) -> list of (file, decl)."""
        if self._index is None:
            idx: dict = {}
            for rel, m, d in self.all_decls():
                idx.setdefault((m.py_module, d.path()), []).append((rel, d))
            self._index = idx
        return self._index

    def by_pyname(self):
        """declaration path (python names, without module) -> list of (file, module, decl) over all files."""
        out: dict = {}
        for rel, m, d in self.all_decls():
            out.setdefault(d.path(), []).append((rel, m, d))
        return out


def api_index(api: dict) -> dict:
    """id -> entry for every list of the API JSON."""
    out = {}
    for key in ("modules", "classes", "functions", "results", "enums", "enum_instances", "attributes", "parameters"):
        for e in api.get(key, []):
            out.setdefault(key, {})[e["id"]] = e
    return out
