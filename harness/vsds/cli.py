"""Entry point: python -m vsds.cli <Cxx> [--tier ...] [--seed ...] [--replay path]."""

from __future__ import annotations

import importlib
import sys

from .core import parse_args


def main() -> int:
    a = parse_args(sys.argv[1:])
    pid = a.pid.upper()
    try:
        mod = importlib.import_module(f"vsds.checks.{pid.lower()}")
    except ModuleNotFoundError as e:
        if e.name and e.name.startswith("vsds.checks"):
            print(f"INCONCLUSIVE property={pid} reason=no check module", file=sys.stderr)
            return 2
        raise
    if a.replay:
        return mod.replay(a.replay) if hasattr(mod, "replay") else 2
    return mod.main(a.tier, a.seed)


if __name__ == "__main__":
    sys.exit(main())
