"""C14 -- type-source preference settles only real conflicts; warnings never alter output.

Workload: functions and methods covering every combination {hint present/absent} x {docstring type present/absent}
x {equal/different} per parameter and per result, under 2 preferences x 2 warning settings x 3 structured styles.
Oracle: the stub type (normal form) is the hint under CODE / the docstring type under DOCSTRING when both exist, the
single source when one exists, none when none; the output trees of WARN and IGNORE are byte-identical; the root
logger's WARNING records (M9) are exactly the expected discrepancy warnings.
"""

from __future__ import annotations

import re

from .. import tyterm as tt
from ..core import Check, Viol, drive, generic_replay, rng_for
from ..run import Case
from ..stubs import StubSet

PID = "C14"
REACH = ["MyPyAstVisitor.enter_funcdef", "DocstringParser._griffe_annotation_to_api_type", "TypeSourcePreference.from_string", "TypeSourceWarning.from_string", "_get_args"]

TYPES = {
    "int": ("int",),
    "str": ("str",),
    "float": ("float",),
    "bool": ("bool",),
    "list[int]": ("list", ("int",)),
    "dict[str, int]": ("dict", ("str",), ("int",)),
    # types that differ only in the ORDER of their parts
    "dict[int, str]": ("dict", ("int",), ("str",)),
    "list[dict[str, int]]": ("list", ("dict", ("str",), ("int",))),
    "list[dict[int, str]]": ("list", ("dict", ("int",), ("str",))),
}
STYLES = ["numpydoc", "google", "rest"]


def pick_pair(rng, equal: bool):
    a = rng.choice(list(TYPES))
    if equal:
        return a, a
    b = rng.choice([t for t in TYPES if t != a])
    if rng.random() < 0.15:
        a, b = rng.choice([("dict[str, int]", "dict[int, str]"), ("dict[int, str]", "dict[str, int]"), ("list[dict[str, int]]", "list[dict[int, str]]")])
    return a, b


def render_doc(style: str, summary: str, params: list, result: str | None) -> str:
    """params: (name, doctype or None)."""
    lines = [summary]
    if style == "numpydoc":
        if params:
            lines += ["", "Parameters", "----------"]
            for n, t in params:
                lines += [f"{n} : {t}" if t else n, f"    About {n}."]
        if result is not None:
            lines += ["", "Returns", "-------", result, "    The result."]
    elif style == "google":
        if params:
            lines += ["", "Args:"]
            for n, t in params:
                lines.append(f"    {n} ({t}): About {n}." if t else f"    {n}: About {n}.")
        if result is not None:
            lines += ["", "Returns:", f"    {result}: The result."]
    else:
        lines.append("")
        for n, t in params:
            lines.append(f":param {n}: About {n}.")
            if t:
                lines.append(f":type {n}: {t}")
        if result is not None:
            lines += [":returns: The result.", f":rtype: {result}"]
    return "\n".join(lines) + "\n"


def build_model(rng, idx: int, n_funcs: int):
    """Style independent: list of functions with per-parameter and per-result source combinations."""
    funcs = []
    for j in range(n_funcs):
        params = []
        for k in range(rng.randint(1, 4)):
            hint = rng.random() < 0.7
            doc = rng.random() < 0.7
            equal = rng.random() < 0.5
            h, d = pick_pair(rng, equal)
            params.append({"name": f"p{k}", "hint": h if hint else None, "doc": d if doc else None})
        rh = rng.random() < 0.7
        rd = rng.random() < 0.7
        h, d = pick_pair(rng, rng.random() < 0.5)
        result = {"hint": h if rh else None, "doc": d if rd else None}
        f = {"name": f"fn{idx}x{j}", "method": rng.random() < 0.4, "params": params, "result": result}
        f["mkind"] = rng.choice(["inst", "inst", "static", "class"])  # what a method's first written parameter is: self, nothing, cls
        if rng.random() < 0.2:
            # a constructor: parameters documented on the class, or (class without docstring) in the __init__ docstring
            f["method"] = False
            f["ctor"] = rng.choice(["class", "init"])
            f["result"] = {"hint": None, "doc": None}
            funcs.append(f)
            continue
        if rng.random() < 0.3:
            # tuple hint + one docstring entry per position, each position equal or different on its own
            k = rng.randint(2, 3)
            f["multi"] = []
            for q in range(k):
                h, d = pick_pair(rng, rng.random() < 0.5)
                if rng.random() < 0.3:
                    d = None  # an entry of the Returns section without type
                f["multi"].append({"name": f"r{q}", "hint": h, "doc": d})
        funcs.append(f)
    # declarations named like the node that holds them: a function named like its module, a method named like its class
    plain = [f for f in funcs if not f["method"] and not f.get("ctor")]
    if plain:
        plain[0]["name"] = "srcmod"
    meths = [f for f in funcs if f["method"] and not f.get("ctor")]
    if meths:
        meths[0]["cls_name"] = meths[0]["name"]
    return funcs


SIMPLE = ["int", "str", "float", "bool"]


def adapt(funcs, style: str, gated: set):
    """Style-specific view of the model: combinations a recorded finding covers are replaced by harmless ones."""
    import copy

    out = copy.deepcopy(funcs)
    for f in out:
        if style != "numpydoc":
            f.pop("multi", None)
            if f.get("ctor") == "init":
                f["ctor"] = "class"  # only the NumPy style reads parameter types from the __init__ docstring (recorded finding)
        if style == "rest" and "doc:type:param-hint-and-doc-differ@rest" in gated:
            for p in f["params"]:
                if p["hint"] and p["doc"] and p["hint"] != p["doc"]:
                    p["doc"] = p["hint"]
        if style == "google" and "doc:type:result@google" in gated:
            r = f["result"]
            if r["hint"] and r["doc"]:
                r["doc"] = r["hint"]
            if r["doc"] and not r["hint"] and r["doc"] not in SIMPLE:
                r["doc"] = "int"
            if r["doc"] and r["hint"] and r["doc"] not in SIMPLE:
                r["doc"] = r["hint"] = "int"
    return out


def render_module(funcs, style: str) -> str:
    out = ["from __future__ import annotations\n\n\n"]
    for f in funcs:
        sig = ", ".join(p["name"] + (f": {p['hint']}" if p["hint"] else "") for p in f["params"])
        ret = f" -> {f['result']['hint']}" if f["result"]["hint"] else ""
        doc = render_doc(style, f"Summary of {f['name']}.", [(p["name"], p["doc"]) for p in f["params"]], f["result"]["doc"])
        if f.get("multi"):
            ret = " -> tuple[" + ", ".join(r["hint"] for r in f["multi"]) + "]"
            doc = render_doc(style, f"Summary of {f['name']}.", [(p["name"], p["doc"]) for p in f["params"]], None)
            doc += "\nReturns\n-------\n" + "".join((f"{r['name']} : {r['doc']}\n    Part.\n" if r["doc"] else f"{r['name']} : the next part\n    Part without usable type.\n") for r in f["multi"])
        if f.get("ctor"):
            b4 = "".join("    " + ln + "\n" if ln else "\n" for ln in doc.split("\n")[:-1])
            b8 = "".join("        " + ln + "\n" if ln else "\n" for ln in doc.split("\n")[:-1])
            if f["ctor"] == "class":
                out.append(f"class Ctor_{f['name']}:\n    \"\"\"{b4[4:]}    \"\"\"\n\n    def __init__(self, {sig}) -> None:\n        ...\n\n\n")
            else:
                out.append(f"class Ctor_{f['name']}:\n    def __init__(self, {sig}) -> None:\n        \"\"\"{b8[8:]}        \"\"\"\n        ...\n\n\n")
        elif f["method"]:
            body = "".join("        " + ln + "\n" if ln else "\n" for ln in doc.split("\n")[:-1])
            deco, recv = {"inst": ("", "self, "), "static": ("    @staticmethod\n", ""), "class": ("    @classmethod\n", "cls, ")}[f.get("mkind", "inst")]
            out.append(f"class {f.get('cls_name') or 'Holder_' + f['name']}:\n{deco}    def {f['name']}({recv}{sig}){ret}:\n        \"\"\"{body[8:]}        \"\"\"\n        ...\n\n\n")
        else:
            body = "".join("    " + ln + "\n" if ln else "\n" for ln in doc.split("\n")[:-1])
            out.append(f"def {f['name']}({sig}){ret}:\n    \"\"\"{body[4:]}    \"\"\"\n    ...\n\n\n")
    return "".join(out)


def gen(tier: str, seed: int) -> list[Case]:
    rng = rng_for(seed, PID, "gen")
    from ..core import gated_features

    gated = gated_features()
    n_models = 2 if tier == "quick" else 80
    cases = []
    for i in range(n_models):
        funcs = build_model(rng, i, 90)
        for style in STYLES:
            sfuncs = adapt(funcs, style, gated)
            files = {"src/pk/__init__.py": "", "src/pk/srcmod.py": render_module(sfuncs, style)}
            # sibling modules that each define their OWN class of one name and use it as hint and as docstring type:
            # the same type text means another class in every module
            for sib in ("alpha_s", "beta_s", "gamma_s"):
                def dd(ps, res):
                    body = render_doc(style, "Sibling.", ps, res)
                    return "".join("    " + ln + "\n" if ln else "\n" for ln in body.split("\n")[:-1])[4:]
                files[f"src/pk/{sib}.py"] = (
                    "class Settings:\n    pass\n\n\n"
                    f'def same_{sib}(cfg: Settings) -> Settings:\n    """{dd([("cfg", "Settings")], "Settings")}    """\n    ...\n\n\n'
                    f'def doc_only_{sib}(cfg):\n    """{dd([("cfg", "Settings")], "Settings")}    """\n    ...\n'
                )
            # a module the docstring library cannot load (byte order mark) with hints only, and a plain directory
            # (no __init__.py) with the same: whatever was documented before them, their types are their hints
            hint_only = "def shrink(p0: int, p1: int) -> int:\n    ...\n\n\nclass HintOnly:\n    def scale(self, p0: int, p2: int) -> int:\n        ...\n"
            files["src/pk/zz_hint_bom.py"] = {"hex": (b"\xef\xbb\xbf" + hint_only.encode()).hex()}
            files["src/pk/zz_plain_dir/hint_plain.py"] = hint_only
            for pref in ("code", "docstring"):
                for warn in ("warn", "ignore"):
                    # the option parsers are case-insensitive: spell the values differently from run to run
                    sp = [str.lower, str.upper, str.capitalize][(i + STYLES.index(style) + len(pref) + len(warn)) % 3]
                    cases.append(Case(cid=f"c14-{i}-{style}-{pref}-{warn}", files=files, opts=["--docstyle", sp(style), "-tsp", sp(pref), "-tsw", sp(warn)], meta={"funcs": sfuncs, "style": style, "pref": pref, "warn": warn, "group": (i, style, pref)}, reach=REACH))
    # the warn / ignore relation on packages without a model: every declaration form of C01's library (docstrings of
    # every style, documented types that differ from hints) under each structured style and both preferences
    from . import c01

    for i in range(1 if tier == "quick" else 20):
        ks = c01.kitchen_sink(rng_for(seed, PID, "kitchen-sink", i), gated, 210 + i)
        for style in STYLES:
            for pref in ("code", "docstring"):
                for warn in ("warn", "ignore"):
                    cases.append(Case(cid=f"c14-kitchen{i}-{style}-{pref}-{warn}", files=ks, opts=["--docstyle", style, "-tsp", pref, "-tsw", warn], meta={"relation_only": True, "style": style, "pref": pref, "warn": warn, "group": ("k", i, style, pref)}, reach=REACH))
    return cases


def expected_type(src: dict, pref: str):
    h, d = src["hint"], src["doc"]
    if h and d:
        return TYPES[d] if pref == "docstring" else TYPES[h]
    if h or d:
        return TYPES[h or d]
    return None


def make_judge(chk: Check):
    store: dict = {}

    def judge(case: Case, rec: dict, probe=None) -> list[Viol]:
        viols = []
        pref, warn, style = case.meta["pref"], case.meta["warn"], case.meta["style"]
        if case.meta.get("relation_only"):
            # no model: the warning setting must not change any output file, and IGNORE must be silent
            if warn == "ignore" and any(n == "root" and lv == "WARNING" and m_.startswith("Different type hint and docstring types") for n, lv, m_ in rec["logs"]):
                viols.append(Viol("warning-under-ignore", f"model-free:{style}:{pref}", {"case": case.cid}))
            g = case.meta["group"]
            store.setdefault(g, {})[warn] = rec["tree"]
            if len(store[g]) == 2:
                if store[g]["warn"] != store[g]["ignore"]:
                    diff = sorted(k for k in set(store[g]["warn"]) | set(store[g]["ignore"]) if store[g]["warn"].get(k) != store[g]["ignore"].get(k))
                    viols.append(Viol("warning-setting-changes-output", f"model-free:{pref}", {"files": diff, "style": style}))
                chk.case_ok(f"warn-vs-ignore:model-free:{style}:{pref}")
                del store[g]
            return viols
        funcs = case.meta["funcs"]
        ss = StubSet(rec["tree"])
        for e in ss.errors.values():
            chk.discarded[f"unparsable-stub:{e.rule}"] += 1
        byname = {}
        for _rel, _m, d in ss.all_decls():
            if d.kind == "fun":
                byname[d.pyname] = d
            elif d.kind == "class" and d.pyname.startswith("Ctor_"):
                byname[d.pyname[len("Ctor_"):]] = d  # constructor parameters are the parameters of the class
        exp_param_warn: dict = {}
        exp_result_warn = set()
        for f in funcs:
            d = byname.get(f["name"])
            fid = f"pk/srcmod/{(f.get('cls_name') or 'Holder_' + f['name']) + '/' if f['method'] else ''}{f['name']}"
            if f.get("ctor"):
                fid = f"pk/srcmod/Ctor_{f['name']}/__init__"
            if d is None:
                chk.discarded["function-not-in-stub"] += 1
                continue
            sp = {p.pyname: p for p in d.params or []}
            for p in f["params"]:
                exp = expected_type(p, pref)
                got = sp.get(p["name"])
                combo = f"hint={'y' if p['hint'] else 'n'},doc={'y' if p['doc'] else 'n'},{'eq' if p['hint'] == p['doc'] else 'diff'}"
                where = f"param:{pref}:{combo}"
                if got is None:
                    viols.append(Viol("parameter-missing", where, {"function": f["name"], "param": p["name"]}))
                    continue
                gnf = tt.stub_nf(got.type)
                enf = tt.ref_nf(exp) if exp else None
                if gnf != enf:
                    viols.append(Viol("wrong-type-source", where, {"function": f["name"], "param": p["name"], "hint": p["hint"], "docstring_type": p["doc"], "stub": got.type.render() if got.type else None, "style": style}))
                if p["hint"] and p["doc"] and p["hint"] != p["doc"]:
                    exp_param_warn[fid] = exp_param_warn.get(fid, 0) + 1
                chk.case_ok(f"{style}:{where}", ident=(case.cid, f["name"], p["name"]))
            if f.get("ctor"):
                chk.case_ok(f"{style}:ctor-documented-on-{f['ctor']}:{pref}")
                continue
            r = f["result"]
            exp = expected_type(r, pref)
            combo = f"hint={'y' if r['hint'] else 'n'},doc={'y' if r['doc'] else 'n'},{'eq' if r['hint'] == r['doc'] else 'diff'}"
            where = f"result:{pref}:{combo}"
            got = [tt.stub_nf(x.type) for x in d.results]
            enf = [tt.ref_nf(exp)] if exp else []
            if f.get("multi"):
                enf = [tt.ref_nf(expected_type(x, pref)) for x in f["multi"]]
                where = f"results:{pref}:" + "".join("n" if not x["doc"] else "e" if x["hint"] == x["doc"] else "d" for x in f["multi"])
                r = {"hint": [x["hint"] for x in f["multi"]], "doc": [x["doc"] for x in f["multi"]]}
                if any(x["doc"] and x["hint"] != x["doc"] for x in f["multi"]):
                    exp_result_warn.add(fid)
                if got != enf:
                    viols.append(Viol("wrong-type-source", where, {"function": f["name"], "hint": r["hint"], "docstring_type": r["doc"], "stub": [x.type.render() if x.type else None for x in d.results], "style": style}))
                chk.case_ok(f"{style}:{where}")
                continue
            if got != enf:
                viols.append(Viol("wrong-type-source", where, {"function": f["name"], "hint": r["hint"], "docstring_type": r["doc"], "stub": [x.type.render() if x.type else None for x in d.results], "style": style}))
            if r["hint"] and r["doc"] and r["hint"] != r["doc"]:
                exp_result_warn.add(fid)
            chk.case_ok(f"{style}:{where}")
        # the hint-only modules: every parameter and result is Int under both preferences
        for rel, m in ss.files.items():
            if m.py_module.endswith(("zz_hint_bom", "hint_plain")):
                for d in m.walk():
                    if d.kind == "fun":
                        got_types = [p.type.render() if p.type else None for p in d.params or []] + [r.type.render() if r.type else None for r in d.results]
                        if any(t != "Int" for t in got_types):
                            viols.append(Viol("wrong-type-source", f"hint-only-module:{style}:{pref}", {"file": rel, "function": d.path(), "stub": got_types}))
                        chk.case_ok(f"{style}:hint-only-module:{pref}")
        # the sibling modules: their own class of that name, no import of a sibling's class
        for rel, m in ss.files.items():
            if m.py_module.endswith("_s"):
                if m.imports:
                    viols.append(Viol("docstring-type-resolved-in-another-module", f"siblings:{style}:{pref}", {"file": rel, "imports": m.imports}))
                chk.case_ok(f"{style}:siblings:{pref}")
        # warnings (M9)
        got_param: dict = {}
        got_result: dict = {}
        for name, level, msg in rec["logs"]:
            if name != "root" or level != "WARNING":
                continue
            m1 = re.fullmatch(r"Different type hint and docstring types for the result of '(.*)'\.", msg)
            m2 = re.fullmatch(r"Different type hint and docstring types for '(.*)'\.", msg)
            if m1:
                got_result[m1.group(1)] = got_result.get(m1.group(1), 0) + 1
            elif m2:
                got_param[m2.group(1)] = got_param.get(m2.group(1), 0) + 1
        chk.counters["discrepancy_warnings_seen"] += sum(got_param.values()) + sum(got_result.values())
        want_param = set(exp_param_warn) if warn == "warn" else set()
        want_result = exp_result_warn if warn == "warn" else set()
        for fid in sorted(set(got_param) - want_param):
            viols.append(Viol("warning-without-discrepancy", f"param:{warn}", {"function": fid}))
        for fid in sorted(want_param - set(got_param)):
            viols.append(Viol("warning-missing", f"param:{warn}", {"function": fid}))
        for fid in sorted(set(got_result) - want_result):
            viols.append(Viol("warning-without-discrepancy", f"result:{warn}", {"function": fid}))
        for fid in sorted(want_result - set(got_result)):
            viols.append(Viol("warning-missing", f"result:{warn}", {"function": fid}))
        chk.case_ok(f"warnings:{style}:{pref}:{warn}")
        # WARN vs IGNORE: identical output
        g = case.meta["group"]
        store.setdefault(g, {})[warn] = rec["tree"]
        if len(store[g]) == 2:
            if store[g]["warn"] != store[g]["ignore"]:
                diff = sorted(k for k in set(store[g]["warn"]) | set(store[g]["ignore"]) if store[g]["warn"].get(k) != store[g]["ignore"].get(k))
                viols.append(Viol("warning-setting-changes-output", f"{pref}", {"files": diff, "style": style}))
            chk.case_ok(f"warn-vs-ignore:{style}:{pref}")
            del store[g]
        chk.sample({"case": case.cid, "warnings": {"param": len(got_param), "result": len(got_result)}, "example": funcs[0]}, limit=2)
        return viols

    return judge


def main(tier: str, seed: int) -> int:
    chk = Check(PID, tier, seed)
    cases = gen(tier, seed)
    judge = make_judge(chk)
    drive(chk, cases, judge, per_proc=2)
    pj = make_judge(Check(PID, "probe", 0))
    chk.run_probes(
        lambda c, r, probe=None: pj(c, r),
        build_case=lambda f: Case(
            cid="probe:" + f["id"],
            files={"src/pk/__init__.py": "", "src/pk/srcmod.py": render_module(f["probe"]["funcs"], f["probe"]["style"])},
            opts=["--docstyle", f["probe"]["style"], "-tsp", f["probe"]["pref"], "-tsw", "warn"],
            meta={"funcs": f["probe"]["funcs"], "style": f["probe"]["style"], "pref": f["probe"]["pref"], "warn": "warn", "group": ("probe", f["id"])},
            reach=REACH,
        ),
    )
    if chk.counters["discrepancy_warnings_seen"] == 0 and not chk.inconclusive:
        chk.inconc("log capture (M9) saw no discrepancy warning at all")
    chk.assumptions = [
        "types come from a set on which equality is unambiguous (int, str, float, bool, list[int], dict[str, int])",
        "parameters have no default values (a docstring type also replaces the default by the docstring's default)",
        "only records of logger 'root' at WARNING level with the two discrepancy message shapes are counted",
    ]
    return chk.finish(
        rule="one case = one parameter or result judged for its type source, one run judged for its warning set, one WARN/IGNORE pair compared byte by byte; distinct = (style, position, preference, source combination)",
        min_cases=1500 if tier == "quick" else 20000,
    )


def replay(path: str) -> int:
    return generic_replay(path, gen, make_judge)
