"""C10 -- stub files are laid out by module path inside the output directory.

Oracle: the file-effect ledger (M3, audit hook: every path opened for writing with the content it held before the
open) and the header parsed from each stub.  Collisions are taken from the ledger, not from the final tree (the final
tree cannot show an overwrite).
"""

from __future__ import annotations

import os

from .. import pkggen as pg
from ..core import Check, Viol, drive, gated_features, generic_replay, rng_for, noise_opts
from ..run import Case
from ..stubs import StubSet

PID = "C10"
REACH = [
    "generate_stub_data",
    "create_stub_files",
    "_create_outside_package_class",
    "StubsStringGenerator.create_reexport_module_strings",
    "API.to_json_file",
    "ensure_file_exists",
]


def make_cfg(gated: set) -> pg.GenCfg:
    cfg = pg.GenCfg()
    cfg.reexport_forms = tuple(f for f in pg.ALL_REEXPORT_FORMS if f"reexport:{f}" not in gated)
    cfg.foreign = True
    cfg.local_foreign = True
    cfg.p_reexport = 0.45
    cfg.max_depth = 4
    return cfg


def gen(tier: str, seed: int) -> list[Case]:
    rng = rng_for(seed, PID, "gen")
    cfg = make_cfg(gated_features())
    n = 24 if tier == "quick" else 1600
    cases = []
    spell = ["abs", "rel", "abs_slash", "rel_slash", "dotdot", "rel_dot"]
    for i in range(n):
        cfg.local_foreign_lower = i % 2 == 0  # lower-case class names only without naming conversion (recorded finding)
        pkg = pg.random_pkg(rng, cfg)
        add_name_clashes(rng, pkg)
        cases.append(
            Case(
                cid=f"c10-{i}",
                files=pg.render(pkg),
                opts=(["-nc"] if i % 2 else []) + noise_opts(seed, PID, i),
                out_spelling=spell[i % len(spell)],
                src_spelling=spell[(i // 2) % len(spell)],
                meta={"pkg": pkg},
                reach=REACH,
            ),
        )
    # every declaration form of C01's library and its whole-package scenarios (judged without a package model: writes
    # inside the output directory, one text per path, directory = announced package)
    from ..scenarios import PACKAGE_SCENARIOS
    from . import c01

    for i in range(2 if tier == "quick" else 24):
        ks = c01.kitchen_sink(rng_for(seed, PID, "kitchen-sink", i), gated_features(), 110 + i)
        cases.append(Case(cid=f"c10-kitchen-{i}", files=ks, opts=[["-nc"], ["--docstyle", "numpydoc"], [], ["-nc", "--docstyle", "rest"]][i % 4], out_spelling=spell[i % len(spell)], meta={}, reach=REACH))
    for k, (feat, sfiles, optsets) in enumerate(PACKAGE_SCENARIOS):
        if feat in gated_features() or feat == "file:stub-and-namespace":  # file names that are no module names
            continue
        files = {"src/" + fk: ({"hex": fv.hex()} if isinstance(fv, bytes) else fv) for fk, fv in sfiles.items()}
        cases.append(Case(cid=f"c10-scenario-{feat}", files=files, opts=list(optsets[k % len(optsets)]), meta={}, reach=REACH))
        if k % 3 == 0:
            # the same package addressed through its parent directory (no package itself, holds exactly this package):
            # the inventory is named after the directory given with -s
            c = Case(cid=f"c10-scenario-{feat}-via-parent", files=files, opts=list(optsets[(k + 1) % len(optsets)]), out_spelling=spell[k % len(spell)], meta={}, reach=REACH)
            c.src = "src"
            cases.append(c)
    return cases


def add_name_clashes(rng, pkg: pg.Pkg) -> None:
    """Modules and declarations with equal names; a private and a public module with the same stem."""
    if rng.random() < 0.5 and pkg.modules:
        m = rng.choice(pkg.modules)
        stem = m.name.lstrip("_")
        twin = ("_" + stem) if not m.name.startswith("_") else stem
        if not any(x.pkg == m.pkg and x.name == twin for x in pkg.modules):
            pkg.modules.append(pg.Mod(m.pkg, twin, decls=[pg.Fn(f"twin_of_{stem}")]))
    if rng.random() < 0.5 and pkg.modules:
        m = rng.choice(pkg.modules)
        m.decls.append(pg.Fn(f"sameas_{m.name.strip('_')}"))
    # modules whose names start with two or three underscores: written as a module stub (a declaration re-exported by a
    # package that is not nearer to the root keeps the module stub) and re-exported as a whole module without alias
    if pkg.modules:
        home = rng.choice(pkg.modules).pkg
        n = len(pkg.modules)
        deep = pg.Mod(home, f"__deepmod{n}", decls=[pg.Fn(f"deep_fn{n}"), pg.Cls(f"DeepCls{n}", methods=[pg.Fn("go", role="inst")])])
        wide = pg.Mod(("pk",), f"___widemod{n}", decls=[pg.Fn(f"wide_fn{n}"), pg.Fn(f"wide_other{n}")])
        pkg.modules += [deep, wide]
        pkg.inits.setdefault(tuple(home), []).append(pg.Reexport("modalias", deep.qname, None, None, "rel"))
        if len(home) > 1:
            pkg.inits.setdefault(tuple(home), []).append(pg.Reexport("name", wide.qname, f"wide_fn{n}", None, "abs"))
        # declarations named like a segment of the re-exporting package's own path, or like the beginning of one
        if len(home) > 1 and rng.random() < 0.7:
            seg = home[-1]
            names_ = list(dict.fromkeys([seg, seg[: max(2, len(seg) // 2)], home[1][:3]]))
            names_ = [x for x in names_ if x.isidentifier() and not pg.is_private_name(x)]
            src = pg.Mod(home, f"_pathnames{n}", decls=[pg.Fn(x, [pg.Param("q", "int")], "int") for x in names_])
            pkg.modules.append(src)
            for x in names_:
                pkg.inits.setdefault(tuple(home), []).append(pg.Reexport("name", src.qname, x, None, "rel"))
        # a function (and a class) of a private module re-exported under an alias that is also the name of a public sibling
        # module with content of its own: <pkg>/<alias>.sdsstub (the declaration) next to <pkg>/<alias>/<alias>.sdsstub (the module)
        if rng.random() < 0.6:
            src = pg.Mod(home, f"_aliassrc{n}", decls=[pg.Fn(f"made{n}"), pg.Cls(f"Made{n}", methods=[pg.Fn("go", role="inst")])])
            sib = pg.Mod(home, f"shape{n}", decls=[pg.Fn(f"own_of_shape{n}"), pg.Cls(f"OwnOfShape{n}", methods=[pg.Fn("go", role="inst")])])
            sib2 = pg.Mod(home, f"Form{n}", decls=[pg.Fn(f"own_of_form{n}")])
            pkg.modules += [src, sib, sib2]
            pkg.inits.setdefault(tuple(home), []).append(pg.Reexport("name", src.qname, f"made{n}", f"shape{n}", "rel"))
            pkg.inits.setdefault(tuple(home), []).append(pg.Reexport("name", src.qname, f"Made{n}", f"Form{n}", "rel"))


def _module_reexport_names(pkg: pg.Pkg, package: str) -> set:
    """Public names under which whole modules are re-exported by the __init__ of ``package``."""
    out = set()
    for r in pkg.inits.get(tuple(package.split(".")), []):
        if r.form == "modalias":
            out.add((r.alias or r.module.split(".")[-1]).lstrip("_"))
            out.add(r.module.split(".")[-1].lstrip("_"))
        elif r.form == "star":
            out.add(r.module.split(".")[-1].lstrip("_"))  # the whole content of that module moves to the package
    return out


def make_judge(chk: Check):
    def judge(case: Case, rec: dict, probe=None) -> list[Viol]:
        viols: list[Viol] = []
        out = os.path.realpath(rec["out_abs"])
        pkg: pg.Pkg | None = case.meta.get("pkg")
        own_modules = set()
        if pkg is not None:
            own_modules = {m.qname for m in pkg.modules} | {".".join(p) for p in pkg.packages()}
        # 1. every write lies inside OUT
        writes: dict = {}
        for ev in rec["ledger"]:
            if ev["ev"] in ("open", "os.mkdir", "os.rename", "os.remove"):
                p = ev["path"]
                if not (p == out or p.startswith(out + os.sep)):
                    viols.append(Viol("write-outside-output-dir", ev["ev"], {"path": p.replace(rec["root"], "<ws>"), "out": out.replace(rec["root"], "<ws>")}))
                if ev["ev"] == "open" and ev.get("mode") not in (None, "os.open"):
                    writes.setdefault(p, []).append(ev)
        chk.counters["write_opens"] += sum(len(v) for v in writes.values())
        # 2. collisions from the ledger
        for p, evs in writes.items():
            rel = os.path.relpath(p, out)
            final = rec["tree"].get(rel)
            for i, ev in enumerate(evs):
                before = ev.get("before") or ""
                if i == 0 or not before:
                    continue
                mode = ev["mode"]
                if "w" in mode:
                    later = evs[i + 1].get("before") if i + 1 < len(evs) else final
                    if later != before:
                        viols.append(Viol("two-texts-one-path", "overwrite", {"file": rel, "first": before[:300], "second": (later or "")[:300]}))
                elif "a" in mode:
                    from .. import sds

                    m, _e = sds.try_parse(before)
                    if m is not None and m.py_module in own_modules:
                        viols.append(Viol("two-texts-one-path", "append-onto-module-stub", {"file": rel, "module": m.py_module}))
            chk.case_ok(None)
        # 3. header vs path
        ss = StubSet(rec["tree"])
        for rel, e in ss.errors.items():
            chk.discarded[f"unparsable-stub:{e.rule}"] += 1
        for rel, m in ss.files.items():
            d = os.path.dirname(rel)
            base = os.path.basename(rel)[: -len(".sdsstub")]
            exp_dir = m.py_module.replace(".", "/")
            kind = "module"
            if d != exp_dir:
                viols.append(Viol("directory-differs-from-module-path", "path", {"file": rel, "python_module": m.py_module}))
            last = m.py_module.split(".")[-1].lstrip("_")
            tops = [x.pyname for x in m.decls]
            if base == last:
                kind = "module"
            elif len(tops) == 1 and base == tops[0].lstrip("_"):
                kind = "reexport-file"
            elif pkg is not None and base in _module_reexport_names(pkg, m.py_module):
                kind = "reexported-module"
            elif base.startswith("_"):
                viols.append(Viol("leading-underscore-in-file-name", "name", {"file": rel}))
            elif pkg is None:
                kind = "not-judged-without-package-model"  # which modules an __init__ re-exports as a whole is not known here
            else:
                viols.append(Viol("file-name-differs-from-content", "name", {"file": rel, "python_module": m.py_module, "declarations": tops[:5]}))
            chk.case_ok(f"{kind}:{len(d.split('/'))}:{'nc' if '-nc' in case.opts else 'py'}:{'annot' if 'PythonModule' in m.annotations else 'plain'}")
        # 4. API file
        src_name = os.path.basename(os.path.normpath(rec["src_abs"]))
        if f"{src_name}__api.json" not in rec["tree"]:
            viols.append(Viol("api-file-missing", "api", {"expected": f"{src_name}__api.json", "json_files": [k for k in rec["tree"] if k.endswith(".json")]}))
        chk.sample({"case": case.cid, "argv": [a.replace(rec["root"], "<ws>") for a in rec["argv"]], "files": sorted(rec["tree"])[:10]}, limit=3)
        return viols

    return judge


def main(tier: str, seed: int) -> int:
    chk = Check(PID, tier, seed)
    cases = gen(tier, seed)
    judge = make_judge(chk)
    drive(chk, cases, judge, per_proc=3)
    from .c03 import build_probe

    chk.run_probes(lambda c, r, probe=None: judge(c, r), build_case=lambda f: _probe_case(f, build_probe))
    if chk.counters["write_opens"] == 0 and not chk.inconclusive:
        chk.inconc("the file-effect ledger (M3) recorded no write: monitor not attached")
    chk.extra["path_spellings"] = sorted({c.out_spelling for c in cases} | {c.src_spelling for c in cases})
    chk.assumptions = ["mypy's .mypy_cache (written below the working directory or MYPY_CACHE_DIR) is not part of the tool's output"]
    return chk.finish(
        rule="one case = one stub file (header vs path, name rule) or one written path of the ledger; distinct = (file kind, directory depth, naming setting, annotated or not); all non-trivial",
        min_cases=300 if tier == "quick" else 5000,
    )


def _probe_case(f, build_probe):
    pr = f["probe"]
    if "files" in pr:
        return Case(cid="probe:" + f["id"], files=pr["files"], opts=pr.get("opts", []), meta={}, reach=REACH)
    return build_probe(f)


def replay(path: str) -> int:
    return generic_replay(path, gen, make_judge)
