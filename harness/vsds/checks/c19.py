"""C19 -- API type values obey round-trip, equality and hashing laws.

Oracle: law evaluation on the return values of the REAL to_dict / from_dict / == / hash of
safeds_stubgen.api_analyzer._types, on generated terms (exhaustive to depth 2 / arity 2 over a small leaf
alphabet, seeded-random beyond).  A contract (icontract.ensure) on every concrete ``from_dict`` additionally
watches every *nested* parse that the workload triggers (supplementary; counted, never gating by itself).
"""

from __future__ import annotations

import itertools
import json
import random

from ..core import Check, Viol, load_known

PID = "C19"


def _types():
    """The type classes: the private module if it exists, else the names exported by the package."""
    try:
        import safeds_stubgen.api_analyzer._types as T

        return T
    except ImportError:
        import safeds_stubgen.api_analyzer as T

        return T


# ------------------------------------------------------------------------------------------ term generation


def leaves(T):
    B = T.BoundaryType
    out = [
        ("NamedType:a", lambda: T.NamedType("int", "builtins.int")),
        ("NamedType:b", lambda: T.NamedType("Cls", "pk.mod.Cls")),
        # leaves that share their field values with terms of OTHER constructors (NamedSequenceType("Box", "pk.Box", ...),
        # TypeVarType("U", ...), EnumType full_match): equality must tell the constructors apart or agree with the hash
        ("NamedType:box", lambda: T.NamedType("Box", "pk.Box")),
        ("TypeVarType:U-free", lambda: T.TypeVarType("U")),
        ("NamedType:T", lambda: T.NamedType("T", "T")),
        ("UnknownType", lambda: T.UnknownType()),
        ("LiteralType:str", lambda: T.LiteralType(["a"])),
        ("LiteralType:int", lambda: T.LiteralType([7])),
        ("LiteralType:bool", lambda: T.LiteralType([True])),
        ("LiteralType:none", lambda: T.LiteralType([None])),
        ("LiteralType:float", lambda: T.LiteralType([1.5])),
        ("LiteralType:two", lambda: T.LiteralType(["a", 2])),
        # boundary shapes of the literal list: empty, a repeated value, values that are different literals but equal
        # for Python (1 == True == 1.0, 0 == False)
        ("LiteralType:empty", lambda: T.LiteralType([])),
        ("LiteralType:repeated", lambda: T.LiteralType(["a", "a"])),
        ("LiteralType:int-bool", lambda: T.LiteralType([1, True])),
        ("LiteralType:bool-int-float", lambda: T.LiteralType([False, 0, 0.0])),
        ("LiteralType:none-twice", lambda: T.LiteralType([None, None, "x"])),
        ("EnumType:0", lambda: T.EnumType(frozenset())),
        ("EnumType:2", lambda: T.EnumType(frozenset(["x", "y"]), "{x, y}")),
        ("BoundaryType:closed", lambda: B("int", 0, 10, True, True)),
        ("BoundaryType:open", lambda: B("float", 0.0, 1.0, False, False)),
        ("BoundaryType:finite-like-inf", lambda: B("float", 0.0, 5.0, True, True)),
        ("BoundaryType:finite-like-inf-excl", lambda: B("float", 0.0, 5.0, True, False)),
        ("BoundaryType:inf-incl", lambda: B("float", 0.0, B.INFINITY, True, True)),
        ("BoundaryType:inf-excl", lambda: B("float", 0.0, B.INFINITY, True, False)),
        ("BoundaryType:neginf", lambda: B("float", B.NEGATIVE_INFINITY, 1.0, False, True, "in the range (negative_infinity, 1]")),
        # every combination of finite / infinite bounds and brackets (the brackets next to an infinite bound included)
        *[
            (f"BoundaryType:grid:{'neginf' if lo else 'fin'}{'[' if li else '('}{']' if hi_i else ')'}{'inf' if hi else 'fin'}",
             (lambda lo=lo, hi=hi, li=li, hi_i=hi_i: B("float", B.NEGATIVE_INFINITY if lo else 0.0, B.INFINITY if hi else 5.0, li, hi_i)))
            for lo in (False, True) for hi in (False, True) for li in (False, True) for hi_i in (False, True)
            if (lo, hi, li, hi_i) not in ((False, False, True, True), (False, False, True, False), (False, True, True, True), (False, True, True, False))
        ],
        ("TypeVarType:free", lambda: T.TypeVarType("T")),
        ("TypeVarType:bound", lambda: T.TypeVarType("T", T.NamedType("int", "builtins.int"))),
    ]
    return out


SMALL_LEAVES = ["NamedType:a", "NamedType:b", "UnknownType", "LiteralType:two", "EnumType:2", "BoundaryType:inf-incl", "TypeVarType:bound"]


def constructors(T):
    """name -> (arities, builder(list of sub terms))"""
    return {
        "NamedSequenceType": ((0, 1, 2), lambda xs: T.NamedSequenceType("Box", "pk.Box", list(xs))),
        "ListType": ((0, 1, 2), lambda xs: T.ListType(list(xs))),
        "SetType": ((0, 1, 2), lambda xs: T.SetType(list(xs))),
        "TupleType": ((0, 1, 2), lambda xs: T.TupleType(list(xs))),
        "UnionType": ((0, 1, 2), lambda xs: T.UnionType(list(xs))),
        "DictType": ((2,), lambda xs: T.DictType(xs[0], xs[1])),
        "FinalType": ((1,), lambda xs: T.FinalType(xs[0])),
        "CallableType": ((1, 2, 3), lambda xs: T.CallableType(list(xs[:-1]), xs[-1])),
        "TypeVarType": ((1,), lambda xs: T.TypeVarType("U", xs[0])),
    }


def exhaustive_terms(T, depth2_leafset):
    """All terms of depth <= 2 / arity <= 2 (callable: <= 2 params): yields (signature, builder)."""
    lv = leaves(T)
    byname = dict(lv)
    cons = constructors(T)
    for name, mk in lv:
        yield name, mk
    d1 = []
    for cname, (arities, build) in cons.items():
        for ar in arities:
            for combo in itertools.product([n for n, _ in lv], repeat=ar):
                sig = f"{cname}({','.join(combo)})"
                d1.append((sig, (lambda build=build, combo=combo: build([byname[c]() for c in combo]))))
    yield from d1
    # depth 2: sub terms are depth-1 terms over the SMALL leaf set, arity <= 2
    small = [(n, byname[n]) for n in depth2_leafset]
    d1small = []
    for cname, (arities, build) in cons.items():
        for ar in arities:
            if ar > 2:
                continue
            for combo in itertools.product(small, repeat=ar):
                sig = f"{cname}({','.join(n for n, _ in combo)})"
                d1small.append((sig, (lambda build=build, combo=combo: build([mk() for _, mk in combo]))))
    pool = small + d1small
    for cname, (arities, build) in cons.items():
        for ar in arities:
            if ar > 2:
                continue
            for combo in itertools.product(pool, repeat=ar):
                if all(n in depth2_leafset for n, _ in combo):
                    continue  # already a depth-1 term
                sig = f"{cname}({','.join(n for n, _ in combo)})"
                yield sig, (lambda build=build, combo=combo: build([mk() for _, mk in combo]))


def random_term(T, rng: random.Random, depth: int):
    lv = leaves(T)
    cons = constructors(T)
    if depth <= 0 or rng.random() < 0.25:
        n, mk = rng.choice(lv)
        if n.startswith("LiteralType") and rng.random() < 0.5:
            vals = [rng.choice(["a", "b", "", 0, 1, -3, 2.5, True, False, None]) for _ in range(rng.randint(0, 4))]
            return f"LiteralType:r{len(vals)}", T.LiteralType(vals)
        if n.startswith("NamedType") and rng.random() < 0.5:
            nm = rng.choice(["A", "B", "int", "str"])
            return "NamedType:r", T.NamedType(nm, rng.choice(["pk.", "pk.m.", "builtins."]) + nm)
        return n, mk()
    cname = rng.choice(list(cons))
    arities, build = cons[cname]
    ar = rng.choice(arities) if rng.random() < 0.8 else min(4, max(arities) + 1) if cname not in ("DictType", "FinalType", "TypeVarType") else rng.choice(arities)
    subs = [random_term(T, rng, depth - 1) for _ in range(ar)]
    # duplicates matter for the multiset-equality constructors
    if subs and rng.random() < 0.3:
        subs.append(subs[0])
        if cname in ("DictType", "FinalType", "TypeVarType"):
            subs = subs[: arities[0]]
    if cname == "CallableType" and not subs:
        subs = [random_term(T, rng, 0)]
    return f"{cname}({','.join(s for s, _ in subs)})", build([t for _, t in subs])


def shape(sig: str) -> str:
    """Constructor skeleton of a signature (leaf variants collapsed) -- used for 'distinct' counting."""
    import re

    return re.sub(r":[A-Za-z0-9\-]+", "", sig)


# ------------------------------------------------------------------------------------------ laws


class LawBroken(Exception):
    pass


def check_unary(T, sig, x, chk: Check, stats):
    """L1 round trip, L2 dictionary fixpoint, L3 reflexivity, hashability."""
    out = []

    def fail(law, detail):
        out.append(Viol(law, _where(sig), {"term": sig, **detail}))

    try:
        d = x.to_dict()
    except Exception as e:  # noqa: BLE001
        fail("to_dict-raises", {"exc": repr(e)})
        return out
    stats["to_dict"] += 1
    try:
        y = T.AbstractType.from_dict(d)
        stats["from_dict"] += 1
    except Exception as e:  # noqa: BLE001
        fail("from_dict-raises", {"exc": repr(e), "dict": repr(d)[:300]})
        return out
    try:
        eq = y == x
        stats["eq"] += 1
        if eq is not True:
            fail("roundtrip-unequal", {"dict": repr(d)[:300], "parsed": repr(y)[:300]})
    except Exception as e:  # noqa: BLE001
        fail("roundtrip-eq-raises", {"exc": repr(e), "parsed": repr(y)[:300]})
    try:
        d2 = y.to_dict()
        stats["to_dict"] += 1
        if d2 != d:
            fail("dict-not-fixpoint", {"first": repr(d)[:300], "second": repr(d2)[:300]})
    except Exception as e:  # noqa: BLE001
        fail("second-to_dict-raises", {"exc": repr(e), "parsed": repr(y)[:300]})
    try:
        if (x == x) is not True:  # noqa: PLR0124
            fail("not-reflexive", {})
        stats["eq"] += 1
    except Exception as e:  # noqa: BLE001
        fail("eq-raises", {"exc": repr(e)})
    try:
        hash(x)
        stats["hash"] += 1
    except Exception as e:  # noqa: BLE001
        fail("hash-raises", {"exc": repr(e)})
    try:
        eqy = y == x
        if eqy is True:
            try:
                if hash(y) != hash(x):
                    fail("equal-but-hash-differs", {"a": repr(x)[:200], "b": repr(y)[:200]})
                stats["hash"] += 1
            except Exception as e:  # noqa: BLE001
                fail("hash-of-parsed-raises", {"exc": repr(e), "parsed": repr(y)[:300]})
    except Exception:  # noqa: BLE001, S110
        pass
    return out


def check_pair(sa, a, sb, b, stats):
    out = []
    try:
        ab = a == b
        ba = b == a
        stats["eq"] += 2
    except Exception as e:  # noqa: BLE001
        return [Viol("eq-raises", _where(sa), {"a": sa, "b": sb, "exc": repr(e)})]
    if bool(ab) != bool(ba):
        out.append(Viol("not-symmetric", _where(sa), {"a": sa, "b": sb, "a==b": ab, "b==a": ba}))
    if ab is True:
        try:
            ha, hb = hash(a), hash(b)
            stats["hash"] += 2
            if ha != hb:
                out.append(Viol("equal-but-hash-differs", _where(sa), {"a": repr(a)[:200], "b": repr(b)[:200]}))
        except Exception as e:  # noqa: BLE001
            out.append(Viol("hash-raises", _where(sa), {"a": sa, "exc": repr(e)}))
    return out


def _where(sig: str) -> str:
    """Stable location: outermost constructor + the leaf kinds involved (no values)."""
    import re

    head = sig.split("(")[0].split(":")[0]
    kinds = sorted(set(re.findall(r"[A-Z][A-Za-z]+Type", sig)))
    return f"{head}[{'+'.join(kinds)}]"


def permutations_of(T, sig, x, rng):
    """Permuted copies for the constructors whose equality ignores order."""
    fields = {"NamedSequenceType": "types", "ListType": "types", "SetType": "types", "TupleType": "types", "UnionType": "types", "LiteralType": "literals"}
    name = type(x).__name__
    if name in fields:
        seq = list(getattr(x, fields[name]))
        if len(seq) >= 2:
            p = seq[::-1]
            if name == "NamedSequenceType":
                yield T.NamedSequenceType(x.name, x.qname, p)
            else:
                yield type(x)(p)
    elif name == "CallableType" and len(x.parameter_types) >= 2:
        yield T.CallableType(list(x.parameter_types)[::-1], x.return_type)


# ------------------------------------------------------------------------------------------ contracts (M11)


def install_contracts(T, stats):
    """icontract postcondition on every concrete from_dict: re-serialising the parsed value gives the input back.

    Fires for every nested parse as well.  Records instead of raising (a raising contract would abort what it
    observes); evaluation counters are reported in the evidence.
    """
    try:
        import icontract
    except Exception as e:  # noqa: BLE001
        return {"attached": False, "error": repr(e)}
    broken = []

    def make(cls_name):
        def parsed_reserialises(d, result):  # named condition: icontract binds by argument name
            stats["contract_evals"] += 1
            try:
                ok = result.to_dict() == d
            except Exception as e:  # noqa: BLE001
                broken.append((cls_name, repr(e)))
                return True
            if not ok:
                broken.append((cls_name, "to_dict(from_dict(d)) != d"))
            return True

        return parsed_reserialises

    attached = []
    for name in dir(T):
        cls = getattr(T, name)
        if isinstance(cls, type) and issubclass(cls, T.AbstractType) and cls is not T.AbstractType and "from_dict" in cls.__dict__:
            raw = cls.__dict__["from_dict"].__func__

            def plain(d, _raw=raw, _cls=cls):
                return _raw(_cls, d)

            wrapped = icontract.ensure(make(name), error=LawBroken)(plain)
            cls.from_dict = staticmethod(wrapped)
            attached.append(name)
    return {"attached": True, "classes": attached, "broken": broken}


# ------------------------------------------------------------------------------------------ main


def judge_terms(T, terms, chk: Check, stats, rng, pair_budget: int):
    viols = []
    built = []
    for sig, mk in terms:
        x = mk() if callable(mk) else mk
        built.append((sig, x))
        vs = check_unary(T, sig, x, chk, stats)
        for p in permutations_of(T, sig, x, rng):
            vs += check_pair(sig, x, sig + "~perm", p, stats)
            stats["perm_pairs"] += 1
        viols += vs
        chk.case_ok(shape(sig))
    # pairs
    n = len(built)
    if n * n <= pair_budget:
        pairs = ((i, j) for i in range(n) for j in range(i + 1, n))
    else:
        pairs = ((rng.randrange(n), rng.randrange(n)) for _ in range(pair_budget))
    for i, j in pairs:
        (sa, a), (sb, b) = built[i], built[j]
        viols += check_pair(sa, a, sb, b, stats)
        stats["pairs"] += 1
    return viols


def main(tier: str, seed: int) -> int:
    from collections import Counter

    T = _types()
    chk = Check(PID, tier, seed)
    stats = Counter()
    rng = random.Random(f"C19|{seed}")
    known = load_known(PID)
    gated = {f["expect"].get("where") for f in known}
    mon = install_contracts(T, stats)

    ex = list(exhaustive_terms(T, SMALL_LEAVES))
    n_random = 3000 if tier == "quick" else 60000
    rnd = []
    for _ in range(n_random):
        rnd.append(random_term(T, rng, rng.randint(2, 5)))
    # quick: depth-2 part is subsampled deterministically by seed; thorough: all of it
    if tier == "quick":
        head = [t for t in ex if t[0].count("(") <= 1]
        tail = [t for t in ex if t[0].count("(") > 1]
        rng.shuffle(tail)
        ex_used = head + tail[:6000]
        exhaustive_part = "leaves + depth 1 complete; depth 2 sampled"
    else:
        ex_used = ex
        exhaustive_part = "leaves + depth 1 + depth 2 (arity<=2, small leaf set) complete"
    viols = judge_terms(T, ex_used, chk, stats, rng, pair_budget=400000 if tier == "quick" else 4000000)
    # families of arity 2-4 over three leaves, with repeated members, for every constructor that takes a list: ALL pairs of a
    # family are compared (x == y against y == x, equal values against equal hashes), also one level down in each constructor
    lv = dict(leaves(T))
    a, b, c = lv["NamedType:a"], lv["NamedType:b"], lv["LiteralType:two"]
    shapes_ = [combo for n_ in (2, 3, 4) for combo in itertools.product("abc", repeat=n_)]
    mk = {"a": a, "b": b, "c": c}
    cons = constructors(T)
    for cname in ("TupleType", "ListType", "SetType", "UnionType", "NamedSequenceType", "CallableType"):
        build = cons[cname][1]
        fam = [(f"{cname}({','.join(sh)})", (lambda build=build, sh=sh: build([mk[x]() for x in sh]))) for sh in shapes_]
        viols += judge_terms(T, fam, chk, stats, rng, pair_budget=len(fam) ** 2 + 1)
        for outer in ("TupleType", "ListType", "FinalType"):
            obuild = cons[outer][1]
            nested = [(f"{outer}({sig})", (lambda obuild=obuild, m=m: obuild([m()]))) for sig, m in fam[: 40]]
            viols += judge_terms(T, nested, chk, stats, rng, pair_budget=len(nested) ** 2 + 1)
    viols += judge_terms(T, rnd, chk, stats, rng, pair_budget=200000 if tier == "quick" else 3000000)

    # classify: known findings are recorded by mechanism (constructor + leaf kinds involved)
    for v in viols:
        kid = chk.classify_known(v)
        if kid:
            if kid not in chk.known_seen:
                chk.known_seen.append(kid)
                f = next(f for f in known if f["id"] == kid)
                chk.known_lines.append(f"KNOWN-FINDING: property={PID} {kid}: {f['what']}")
        else:
            chk.violation(v)
    for cls_name, what in (mon.get("broken") or [])[:50]:
        v = Viol("contract:from_dict-reserialises", cls_name, {"what": what})
        if not chk.classify_known(v):
            chk.violation(v)
    chk.monitors["M11"] = {k: v for k, v in mon.items() if k != "broken"}
    chk.counters.update(stats)
    chk.sample({"term": ex_used[40][0], "dict": json.loads(json.dumps(ex_used[40][1]().to_dict(), default=list))})
    chk.sample({"term": rnd[0][0], "repr": repr(rnd[0][1])[:300]})
    chk.sample({"term": rnd[1][0], "repr": repr(rnd[1][1])[:300]})
    chk.extra["exhaustive_parts"] = exhaustive_part
    chk.extra["law_evaluations"] = stats["eq"] + stats["hash"] + stats["to_dict"] + stats["from_dict"]
    chk.assumptions = [
        "no NaN leaves (no producer in the tool creates them)",
        "terms are built through the public constructors of the 14 type classes",
        "gated (known findings): " + ", ".join(sorted(str(g) for g in gated)) if gated else "no gated features",
    ]
    return chk.finish(
        rule=(
            "terms over the 14 constructors: exhaustive to depth 2/arity 2 over a small leaf alphabet + seeded random "
            "to depth 5; a case is one term (all unary laws + permutation pairs); distinct = distinct constructor "
            "skeletons (leaf variants collapsed); every term is non-trivial (>=1 constructor application)"
        ),
        min_cases=2000,
    )
