"""C09 -- naming conversion renames consistently and keeps Python names recoverable.

Oracle 1 (contract, M11): icontract postconditions on the REAL ``_convert_name_to_convention`` (as bound in all three
generator modules), driven with identifier strings exhaustively up to the explored length and randomly beyond.
Oracle 2 (relation between two runs): the same package with ``-nc`` off and on.  Off: every identifier is the Python
name and no @PythonName/@PythonModule occurs.  On: kind-appropriate conversion, annotation present iff the emitted name
differs, and both stub trees reduced to "Python-name form" are identical.
"""

from __future__ import annotations

import itertools
import re
import string

from .. import names as nm
from .. import sds
from ..core import Check, Viol, drive, gated_features, rng_for
from ..run import Case
from ..stubs import StubSet

PID = "C09"
REACH = [
    "_convert_name_to_convention",
    "_create_name_annotation",
    "StubsStringGenerator._create_module_string",
    "StubsStringGenerator.create_reexport_module_strings",
    "StubsStringGenerator._create_class_string",
    "StubsStringGenerator._create_function_string",
    "StubsStringGenerator._create_parameter_string",
    "StubsStringGenerator._create_enum_string",
]

# ------------------------------------------------------------------------------------------ oracle 1: contracts


def run_contracts(chk: Check, tier: str, seed: int) -> None:
    # The conversion function is a private name: if a refactoring moves or renames it, the contract part is reported
    # as not attached and the verdict is taken from the two-run relation alone (DESIGN.md section 3.2).
    try:
        import safeds_stubgen.stubs_generator._generate_stubs as gs
        import safeds_stubgen.stubs_generator._helper as helper
        import safeds_stubgen.stubs_generator._stub_string_generator as ssg

        NC = helper.NamingConvention
        raw = helper._convert_name_to_convention
    except (ImportError, AttributeError) as e:
        chk.monitors["M11"] = {"attached": False, "error": repr(e)}
        return
    stats = {"evals": 0, "broken": []}

    def conversion_matches_reference(name, naming_convention, result, is_class_name=False):
        stats["evals"] += 1
        bad = None
        if naming_convention == NC.PYTHON:
            if result != name:
                bad = "python-convention-not-identity"
        elif nm.defined(name):
            exp = nm.names_ref(name, is_class_name)
            if result != exp:
                bad = "differs-from-reference"
            elif "_" in result:
                bad = "underscore-left"
            elif result.lower() != name.replace("_", "").lower():
                bad = "characters-lost-or-invented"
            elif raw(result, naming_convention, is_class_name) != result:
                bad = "not-idempotent"
        if bad:
            stats["broken"].append((bad, name, is_class_name, result))
        return True

    try:
        import icontract

        class ContractBroken(Exception):
            pass

        wrapped = icontract.ensure(conversion_matches_reference, error=ContractBroken)(raw)
        attached = True
    except Exception as e:  # noqa: BLE001
        # fall back to a plain wrapper: same observations, no library
        def wrapped(name, naming_convention, is_class_name=False):
            r = raw(name, naming_convention, is_class_name)
            conversion_matches_reference(name, naming_convention, r, is_class_name)
            return r

        attached = f"fallback wrapper ({e!r})"
    bound = []
    for mod in (helper, ssg, gs):
        if getattr(mod, "_convert_name_to_convention", None) is raw:
            mod._convert_name_to_convention = wrapped
            bound.append(mod.__name__.split(".")[-1])
    chk.monitors["M11"] = {"attached": attached, "bound_in": bound}

    # drive through the generator modules' own bindings (what the emission sites call)
    small = ["a", "B", "1", "_"]
    full = string.ascii_letters + string.digits + "_"
    pool = []
    for n in range(1, 5):
        for tup in itertools.product(small, repeat=n):
            pool.append("".join(tup))
    maxfull = 2 if tier == "quick" else 3
    for n in range(1, maxfull + 1):
        for tup in itertools.product(full, repeat=n):
            pool.append("".join(tup))
    rng = rng_for(seed, PID, "names")
    for _ in range(4000 if tier == "quick" else 60000):
        n = rng.randint(4, 24)
        alphabet = rng.choice([full, "ab_", "aB_1", "_x", "Ab1__"])
        pool.append("".join(rng.choice(alphabet) for _ in range(n)))
    idents = [s for s in pool if s.isidentifier()]
    calls = 0
    for i, s in enumerate(idents):
        fn = (ssg, gs, helper)[i % 3]._convert_name_to_convention
        for conv in (NC.PYTHON, NC.SAFE_DS):
            for is_class in (False, True):
                fn(s, conv, is_class)
                calls += 1
        shape = re.sub(r"[a-z]", "a", re.sub(r"[A-Z]", "A", re.sub(r"[0-9]", "1", s)))
        chk.case_ok("name:" + shape[:12], n=1)
    for mod in (helper, ssg, gs):
        if getattr(mod, "_convert_name_to_convention", None) is wrapped:
            mod._convert_name_to_convention = raw
    chk.counters["contract_evaluations"] = stats["evals"]
    chk.counters["conversion_calls"] = calls
    chk.extra["exhaustive_parts"] = (
        f"identifiers over {{a,B,1,_}} up to length 4 and over [A-Za-z0-9_] up to length {maxfull} "
        f"({len(idents)} identifiers incl. random ones to length 24) x 2 conventions x class/non-class"
    )
    if stats["evals"] == 0:
        chk.inconc("contract on _convert_name_to_convention was never evaluated")
    seen = set()
    for bad, name, is_class, result in stats["broken"]:
        shape = re.sub(r"[a-z]+", "a", re.sub(r"[A-Z]+", "A", re.sub(r"[0-9]+", "1", name)))
        key = (bad, is_class, shape[:10])
        if key in seen:
            continue
        seen.add(key)
        chk.violation(Viol("contract:" + bad, f"class={is_class}", {"name": name, "result": result, "reference": nm.names_ref(name, is_class) if nm.defined(name) else None}))
    chk.sample({"contract": "names_ref", "examples": [(s, nm.names_ref(s), nm.names_ref(s, True)) for s in ("a_b_1", "__get_x__", "Foo_bar_")]})


# ------------------------------------------------------------------------------------------ oracle 2: two-run relation

WORDS = ["alpha", "beta", "gamma", "delta", "eps", "zeta", "eta", "theta", "iota", "kappa", "lam", "mu", "nu", "xi", "omi", "pi", "rho", "sig", "tau", "ups", "phi", "chi", "psi", "ome"]


_UNIQ = [0]


def _two_letters() -> str:
    _UNIQ[0] += 1
    i = _UNIQ[0]
    return chr(97 + i % 26) + chr(97 + (i // 26) % 26) + chr(97 + (i // 676) % 26)


def shape_name(rng, base: str, cls: bool = False) -> tuple[str, str]:
    """A name built from a unique base token in one of the underscore/case/digit shapes: (name, shape id)."""
    b2 = base[::-1]
    shapes = [
        ("plain", lambda: base),
        ("snake", lambda: f"{base}_{b2}"),
        ("snake3", lambda: f"{base}_x_{b2}"),
        ("double", lambda: f"{base}__{b2}"),
        ("trail", lambda: f"{base}_"),
        ("trail2", lambda: f"{base}_{b2}__"),
        ("camel", lambda: f"{base}{b2.capitalize()}"),
        ("upper", lambda: f"{base.upper()}_{b2.upper()}"),
        ("mixed", lambda: f"{base.capitalize()}_{b2}"),
        ("digit", lambda: f"{base}_1"),
        ("digit2", lambda: f"{base}1_2{b2}"),
        ("single", _two_letters),
    ]
    if not cls:
        shapes.append(("dunder", lambda: f"__{base}_{b2}__"))
    sid, mk = rng.choice(shapes)
    name = mk()
    if cls and name[0].islower() and rng.random() < 0.5:
        name = name[0].upper() + name[1:]
    return name, sid


class NameSource:
    def __init__(self, rng) -> None:
        self.rng = rng
        self.i = 0

    def fresh(self, cls=False):
        w = WORDS[self.i % len(WORDS)] + (chr(ord("a") + (self.i // len(WORDS)) % 26) if self.i >= len(WORDS) else "")
        self.i += 1
        return shape_name(self.rng, w, cls)


def build_pair_package(rng, gated: set):
    """Returns (files, info).  Class names referenced as types never change under conversion (recorded finding)."""
    ns = NameSource(rng)
    shapes_used = set()
    mods = {}
    n_mods = rng.randint(2, 3)
    sub = rng.choice(["sub_pkg", "inner", "deep_er_pkg"])
    mod_names = []
    for mi in range(n_mods):
        mname, sid = ns.fresh()
        mname = mname.strip("_").lower() or f"m{mi}"
        if not nm.defined(mname) or mname[0].isdigit():
            mname = f"mod_{mi}"
        mod_names.append(mname)
    for mi, mname in enumerate(mod_names):
        lines = ["from typing import Callable, Generic, TypeVar\nfrom enum import Enum\n\n"]
        tv = rng.choice(["T", "T_co", "K_t", "ValueT"])
        lines.append(f'{tv} = TypeVar("{tv}")\n\n\n')
        stable_cls = f"Stable{mi}"
        lines.append(f"class {stable_cls}:\n    pass\n\n\n")
        # functions
        for _ in range(rng.randint(4, 8)):
            fname, sid = ns.fresh()
            shapes_used.add("fun:" + sid)
            params = []
            for _ in range(rng.randint(0, 4)):
                pn, psid = ns.fresh()
                pn = pn.strip("_") if pn.startswith("__") else pn
                shapes_used.add("param:" + psid)
                params.append(f"{pn}: {rng.choice(['int', 'str', stable_cls, 'list[int]', tv, 'Callable[[int, str], tuple[int, str]]', 'Callable[[str], int]'])}" + rng.choice(["", "", " = None"]).replace(" = None", "") )
            ret = rng.choice(["int", "None", stable_cls, "tuple[int, str]", "Callable_", tv if any(tv in p for p in params) else "str"])
            if ret == "Callable_":
                # the names a callable type gets for its parameters and results (param_1, result_1, ...) are identifiers too
                ret = rng.choice(["Callable[[int], tuple[int, str, float]]", "Callable[[int, int], str]", "Callable[[], None]", "list[Callable[[int], tuple[int, int]]]"])
            lines.append(f"def {fname}({', '.join(params)}) -> {ret}: ...\n\n\n")
        # classes
        for _ in range(rng.randint(2, 4)):
            cname, sid = ns.fresh(cls=True)
            shapes_used.add("class:" + sid)
            generic = rng.random() < 0.3
            lines.append(f"class {cname}({'Generic[' + tv + ']' if generic else ''}):\n".replace("()", ""))
            body = []
            for _ in range(rng.randint(0, 3)):
                an, asid = ns.fresh()
                an = an.strip("_") if an.startswith("__") else an
                shapes_used.add("attr:" + asid)
                body.append(f"    {an}: {rng.choice(['int', 'str', stable_cls])} = {rng.choice(['1', '2'])}\n".replace(f": str = 1", ': str = "s"').replace(": str = 2", ': str = "t"').replace(f": {stable_cls} = 1", f": {stable_cls} = {stable_cls}()").replace(f": {stable_cls} = 2", f": {stable_cls} = {stable_cls}()"))
            if rng.random() < 0.7:
                ps = []
                ia = []
                for _ in range(rng.randint(0, 3)):
                    pn, psid = ns.fresh()
                    pn = pn.strip("_") if pn.startswith("__") else pn
                    shapes_used.add("param:" + psid)
                    ps.append(f"{pn}: int")
                    if rng.random() < 0.5:
                        ia.append(f"        self.{pn}_at: int = {pn}\n")
                        shapes_used.add("attr:inst")
                body.append(f"    def __init__(self{''.join(', ' + p for p in ps)}) -> None:\n" + ("".join(ia) if ia else "        pass\n") + "\n")
            for _ in range(rng.randint(1, 4)):
                mn, msid = ns.fresh()
                shapes_used.add("method:" + msid)
                deco = rng.choice(["", "", "    @staticmethod\n", "    @property\n"])
                if deco.strip() == "@staticmethod":
                    pn, _ = ns.fresh()
                    pn = pn.strip("_") if pn.startswith("__") else pn
                    body.append(f"{deco}    def {mn}({pn}: int) -> int: ...\n\n")
                elif deco.strip() == "@property":
                    body.append(f"{deco}    def {mn}(self) -> int: ...\n\n")
                    shapes_used.add("property:" + msid)
                else:
                    pn, _ = ns.fresh()
                    pn = pn.strip("_") if pn.startswith("__") else pn
                    body.append(f"    def {mn}(self, {pn}: {tv if generic else 'int'}) -> None: ...\n\n")
            if rng.random() < 0.4:
                # two members whose different Python names become one name under the conversion (a snake_case method next to its
                # legacy camelCase alias, a name with and without trailing underscore): both stay, each with its Python name
                k = len(lines)
                pair = rng.choice([(f"is_ready_{k}", f"isReady{k}"), (f"get_value_{k}x", f"getValue{k}x"), (f"size{k}_", f"size{k}"), (f"load_all{k}", f"loadAll{k}")])
                first, second = pair if rng.random() < 0.5 else pair[::-1]
                body.append(f"    def {first}(self) -> int: ...\n\n    def {second}(self) -> int: ...\n\n")
                if rng.random() < 0.5:
                    body.append(f"    @property\n    def prop_value_{k}(self) -> int: ...\n\n    @property\n    def propValue{k}(self) -> int: ...\n\n")
            if rng.random() < 0.3:
                inner, isid = ns.fresh(cls=True)
                shapes_used.add("nested:" + isid)
                body.append(f"    class {inner}:\n        def go_on(self) -> None: ...\n\n")
            lines.append("".join(body) if body else "    pass\n")
            lines.append("\n")
        # enum
        ename = f"Shade{mi}"
        lines.append(f"class {ename}(Enum):\n")
        for _ in range(rng.randint(1, 4)):
            en, esid = ns.fresh()
            en = en.strip("_") if en.startswith("__") else en
            shapes_used.add("variant:" + esid)
            lines.append(f"    {en} = {rng.randint(1, 99)}\n")
        lines.append("\n")
        mods[mname] = "".join(lines)
    # one module (and sometimes its package) is named like a Safe-DS keyword that is a legal Python identifier
    kw = rng.choice(["schema", "static", "union", "internal", "pipeline", "annotation", "literal", "const", "private", "segment"])
    if kw not in mods and len(mods) >= 2:
        last = list(mods)[-1]
        mods[kw] = mods.pop(last)
        if rng.random() < 0.5:
            sub = rng.choice(["sub", "package", "out"])
    files = {"src/pk/__init__.py": ""}
    placed = []
    for i, (mname, text) in enumerate(mods.items()):
        if i == 0:
            files[f"src/pk/{mname}.py"] = text
            placed.append(f"pk.{mname}")
        else:
            files[f"src/pk/{sub}/{mname}.py"] = text
            files.setdefault(f"src/pk/{sub}/__init__.py", "")
            placed.append(f"pk.{sub}.{mname}")
    return files, {"shapes": sorted(shapes_used), "modules": placed}


def gen(tier: str, seed: int) -> list[Case]:
    rng = rng_for(seed, PID, "pairs")
    _UNIQ[0] = 0
    gated = gated_features()
    n = 10 if tier == "quick" else 500
    cases = []
    for i in range(n):
        files, info = build_pair_package(rng, gated)
        style = []
        cases.append(Case(cid=f"c09-{i}-off", files=files, opts=list(style), meta={"pair": i, "nc": False, **info}, reach=REACH))
        cases.append(Case(cid=f"c09-{i}-on", files=files, opts=[*style, "-nc"], meta={"pair": i, "nc": True, **info}, reach=REACH))
    # whole packages of the general generator: several packages with re-exports of every form (per-declaration stub files,
    # moved modules), multi-word module and package names, classes of other libraries
    from .. import pkggen as pg
    from . import c10

    cfg = c10.make_cfg(gated)
    cfg.p_multiword = 0.5
    cfg.p_reexport = 0.6
    cfg.private_bases = True  # inherited members next to attributes whose names change under conversion
    rng2 = rng_for(seed, PID, "general-packages")
    for j in range(6 if tier == "quick" else 250):
        pkg = pg.random_pkg(rng2, cfg)
        files = pg.render(pkg)
        info = {"shapes": ["general-package"], "modules": [m.qname for m in pkg.modules][:6]}
        cases.append(Case(cid=f"c09-g{j}-off", files=files, opts=[], meta={"pair": f"g{j}", "nc": False, **info}, reach=REACH))
        cases.append(Case(cid=f"c09-g{j}-on", files=files, opts=["-nc"], meta={"pair": f"g{j}", "nc": True, **info}, reach=REACH))
    # present on every seed: re-exporting packages whose paths do and do not change under the conversion, in both processing
    # orders (a snake_case path before a path the conversion leaves alone, and the other way round), one level and two levels deep
    files = {"src/pk/__init__.py": ""}
    for seg, decl in (("a_plain_first".replace("_", ""), "alpha_fn"), ("b_snake", "beta_fn"), ("cplain", "gamma"), ("d_two_words", "delta_one")):
        files[f"src/pk/{seg}/__init__.py"] = f"from ._impl import {decl}\nfrom ._impl import Cls_{decl} as {decl.title().replace('_', '')}Alias\n"
        files[f"src/pk/{seg}/_impl.py"] = f"def {decl}(first_arg: int = 0) -> int: ...\n\n\nclass Cls_{decl}:\n    def do_it(self) -> None: ...\n"
        files[f"src/pk/{seg}/deep_er/__init__.py"] = f"from ._impl2 import {decl}_deep\n"
        files[f"src/pk/{seg}/deep_er/_impl2.py"] = f"def {decl}_deep(x_y: int = 0) -> int: ...\n"
        files[f"src/pk/{seg}/plainsub/__init__.py"] = f"from ._impl3 import {decl}sub\n"
        files[f"src/pk/{seg}/plainsub/_impl3.py"] = f"def {decl}sub(q: int = 0) -> int: ...\n"
    info = {"shapes": ["reexporting-packages"], "modules": sorted(files)[:6]}
    cases.append(Case(cid="c09-reexp-off", files=files, opts=[], meta={"pair": "reexp", "nc": False, **info}, reach=REACH))
    cases.append(Case(cid="c09-reexp-on", files=files, opts=["-nc"], meta={"pair": "reexp", "nc": True, **info}, reach=REACH))
    # ... and packages from C01's library of declaration forms (every form, docstrings of every style)
    from . import c01

    for j in range(2 if tier == "quick" else 40):
        # left out: a generic Protocol (its type variable is used without being declared anywhere, so there is no
        # declaration that could carry the Python name) and types whose class name changes under conversion (recorded C11 finding)
        files = c01.kitchen_sink(rng_for(seed, PID, "kitchen-sink", j), gated | {"class:protocol", "class:foreign-private-base"}, 250 + j)
        style = [["--docstyle", "numpydoc"], [], ["--docstyle", "google"]][j % 3]
        info = {"shapes": ["form-library"], "modules": sorted(k for k in files if k.endswith(".py"))[:6]}
        cases.append(Case(cid=f"c09-k{j}-off", files=files, opts=list(style), meta={"pair": f"k{j}", "nc": False, **info}, reach=REACH))
        cases.append(Case(cid=f"c09-k{j}-on", files=files, opts=[*style, "-nc"], meta={"pair": f"k{j}", "nc": True, **info}, reach=REACH))
    return cases


def _canon_type(t: sds.Type | None, tparams_conv: set, side_off: bool):
    if t is None:
        return None
    if t.kind == "named":
        name = t.name
        if side_off and nm.defined(name) and nm.names_ref(name) in tparams_conv:
            name = nm.names_ref(name)
        return ("n", name, tuple(_canon_type(a, tparams_conv, side_off) for a in t.args), t.nullable)
    if t.kind == "union":
        return ("u", tuple(sorted((_canon_type(a, tparams_conv, side_off) for a in t.args), key=repr)))
    if t.kind == "literal":
        return ("l", tuple(x for _, x in t.literals))
    if t.kind == "unknown":
        return ("?",)
    conv = lambda n: nm.names_ref(n) if (side_off and n and nm.defined(n)) else n  # noqa: E731
    return (
        "c",
        tuple((conv(p.name), _canon_type(p.type, tparams_conv, side_off)) for p in t.params),
        tuple((conv(r.name), _canon_type(r.type, tparams_conv, side_off)) for r in t.results),
    )


def _canon_comment(text: str, side_off: bool) -> str:
    if side_off:
        def conv(m):
            w = m.group(2)
            return m.group(1) + (nm.names_ref(w) if nm.defined(w) else w)

        text = re.sub(r"(@param |@result )([A-Za-z_0-9]+)", conv, text)
    return text


def canon_decl(d: sds.Decl, side_off: bool, scope_tparams: frozenset = frozenset()):
    conv = lambda n: nm.names_ref(n) if (side_off and nm.defined(n)) else n  # noqa: E731
    tps = {conv(tp.name) for tp in d.tparams} | set(scope_tparams)
    tps_f = frozenset(tps)
    return (
        d.kind,
        d.pyname,
        d.static,
        None if d.params is None else tuple((p.pyname, _canon_type(p.type, tps_f, side_off), p.default) for p in d.params),
        tuple((conv(r.name), _canon_type(r.type, tps_f, side_off)) for r in d.results),
        tuple((conv(tp.name), tp.variance, _canon_type(tp.bound, tps_f, side_off)) for tp in d.tparams),
        tuple(_canon_type(s, tps_f, side_off) for s in d.supers),
        _canon_type(d.type, tps_f, side_off),
        tuple(_canon_comment(t, side_off) for _k, t, _l in d.comments),
        tuple(canon_decl(m, side_off, tps_f) for m in d.members),
    )


def make_judge(chk: Check):
    store: dict = {}

    def check_off(ss: StubSet, viols):
        for rel, m in ss.files.items():
            if "PythonModule" in m.annotations:
                viols.append(Viol("annotation-with-flag-off", "module", {"file": rel}))
            if m.package != m.py_module:
                viols.append(Viol("package-converted-with-flag-off", "module", {"file": rel}))
            for d in m.walk():
                if "PythonName" in d.annotations or d.name != d.pyname:
                    viols.append(Viol("annotation-with-flag-off", d.kind, {"file": rel, "decl": d.path()}))
                for p in d.params or []:
                    if "PythonName" in p.annotations:
                        viols.append(Viol("annotation-with-flag-off", "param", {"file": rel, "decl": d.path(), "param": p.name}))
                chk.case_ok(None)

    def check_on(ss: StubSet, viols, meta):
        for rel, m in ss.files.items():
            exp_pkg = nm.path_ref(m.py_module)
            if m.package != exp_pkg:
                viols.append(Viol("package-path-conversion", "module", {"file": rel, "python": m.py_module, "emitted": m.package, "reference": exp_pkg}))
            has = "PythonModule" in m.annotations
            if has != (m.package != m.py_module):
                viols.append(Viol("python-module-annotation-iff", "module", {"file": rel, "python": m.py_module, "emitted": m.package, "annotation": has}))
            for d in m.walk():
                items = [(d.kind, d.name, d.pyname, "PythonName" in d.annotations, d.kind == "class")]
                for p in d.params or []:
                    items.append(("param", p.name, p.pyname, "PythonName" in p.annotations, False))
                for kind, name, pyname, ann, is_class in items:
                    if kind == "enum":
                        continue  # enum names are not among the kinds the statement lists
                    if not nm.defined(pyname):
                        continue
                    exp = nm.names_ref(pyname, is_class)
                    shape = re.sub(r"[a-z]+", "a", re.sub(r"[A-Z]+", "A", re.sub(r"[0-9]+", "1", pyname)))
                    if name != exp:
                        viols.append(Viol("conversion", kind, {"file": rel, "decl": d.path(), "python": pyname, "emitted": name, "reference": exp}))
                    if ann != (name != pyname):
                        viols.append(Viol("python-name-annotation-iff", kind, {"file": rel, "decl": d.path(), "python": pyname, "emitted": name, "annotation": ann}))
                    chk.case_ok(f"{kind}:{shape}")

    def judge(case: Case, rec: dict, probe=None) -> list[Viol]:
        viols: list[Viol] = []
        ss = StubSet(rec["tree"])
        for rel, e in ss.errors.items():
            chk.discarded[f"unparsable-stub:{e.rule}"] += 1
        if case.meta["nc"]:
            check_on(ss, viols, case.meta)
        else:
            check_off(ss, viols)
        pair = case.meta["pair"]
        store.setdefault(pair, {})[case.meta["nc"]] = ss
        if len(store[pair]) == 2:
            off, on = store[pair][False], store[pair][True]
            if set(off.files) | set(off.errors) != set(on.files) | set(on.errors):
                viols.append(Viol("file-set-differs", "tree", {"only_off": sorted(set(off.tree) - set(on.tree)), "only_on": sorted(set(on.tree) - set(off.tree))}))
            for rel in sorted(set(off.files) & set(on.files)):
                mo, mn = off.files[rel], on.files[rel]
                if mo.py_module != mn.py_module:
                    viols.append(Viol("python-module-differs", "module", {"file": rel, "off": mo.py_module, "on": mn.py_module}))
                if sorted(mo.imports) != sorted((nm_from, n, a) for nm_from, n, a in mn.imports) and sorted((nm.path_ref(f), n, a) for f, n, a in mo.imports) != sorted(mn.imports):
                    viols.append(Viol("imports-differ", "module", {"file": rel, "off": mo.imports, "on": mn.imports}))
                co = [canon_decl(d, True) for d in mo.decls]
                cn = [canon_decl(d, False) for d in mn.decls]
                if co != cn:
                    diff = next(((a, b) for a, b in zip(co, cn, strict=False) if a != b), (len(co), len(cn)))
                    viols.append(Viol("python-name-form-differs", "declarations", {"file": rel, "first_difference": repr(diff)[:700]}))
                chk.case_ok(f"pair-file:{len(mo.decls)}")
            chk.sample({"pair": pair, "files": sorted(on.files)[:6], "modules": case.meta["modules"]}, limit=3)
            del store[pair]
        return viols

    return judge


def main(tier: str, seed: int) -> int:
    chk = Check(PID, tier, seed)
    run_contracts(chk, tier, seed)
    cases = gen(tier, seed)
    judge = make_judge(chk)
    drive(chk, cases, judge, per_proc=2)
    shapes = set()
    for c in cases:
        shapes.update(c.meta["shapes"])
    chk.extra["name_shapes_in_positions"] = sorted(shapes)
    chk.extra["package_pairs"] = len(cases) // 2
    chk.assumptions = [
        "names consisting of underscores only have no defined conversion and are excluded",
        "class names that are referenced as types do not change under conversion (declaration/reference mismatch is a recorded C11 finding)",
        "enum names are not judged for case (not among the kinds the statement lists); results carry no annotation site",
    ]
    return chk.finish(
        rule=(
            "cases = identifiers through the contract (distinct = distinct letter/digit/underscore shapes) + declarations and "
            "file pairs of the off/on relation (distinct = kind x name shape); every case converts or compares >=1 name"
        ),
        min_cases=1000,
    )
