"""C03 -- every public declaration appears in the stubs exactly once.

Workload: random package trees (any nesting of packages/modules/classes, any mix of public/private names, re-exports
in parent and ancestor __init__ files) with a ground-truth model; every declaration carries a unique name token.
Oracle: declarations parsed from all stub files, keyed by Python-name path, compared with the model.
"""

from __future__ import annotations

from .. import pkggen as pg
from .. import structure as st
from ..core import Check, Viol, drive, gated_features, generic_replay, rng_for, noise_opts
from ..run import Case
from ..stubs import StubSet

PID = "C03"
REACH = [
    "ASTWalker.walk",
    "MyPyAstVisitor.leave_classdef",
    "MyPyAstVisitor.leave_funcdef",
    "MyPyAstVisitor.leave_enumdef",
    "MyPyAstVisitor.leave_assignmentstmt",
    "MyPyAstVisitor._is_attribute_already_defined",
    "StubsStringGenerator._create_module_string",
    "StubsStringGenerator._create_class_string",
    "StubsStringGenerator._has_node_shorter_reexport",
    "StubsStringGenerator.create_reexport_module_strings",
    "generate_stub_data",
]


def cfg_for(gated: set) -> pg.GenCfg:
    forms = pg.ALL_REEXPORT_FORMS
    cfg = pg.GenCfg()
    cfg.shared_member_names = True
    cfg.twins = True
    cfg.private_name_clashes = True
    cfg.private_bases = True
    cfg.exception_namesakes = True
    cfg.reexport_forms = tuple(f for f in forms if f"reexport:{f}" not in gated)
    return cfg


def gen(tier: str, seed: int) -> list[Case]:
    rng = rng_for(seed, PID, "gen")
    gated = gated_features()
    cfg = cfg_for(gated)
    n = 24 if tier == "quick" else 1600
    cases = []
    for i in range(n):
        cfg.n_modules = (4, 9)
        cfg.n_decls = (5, 14)
        cfg.docs = i % 2 == 0  # module, class and function docstrings (plain text) in every second package
        pkg = pg.random_pkg(rng, cfg)
        opts = (["-nc"] if i % 3 == 1 else []) + noise_opts(seed, PID, i)
        cases.append(Case(cid=f"c03-{i}", files=pg.render(pkg), opts=opts, meta={"pkg": pkg}, reach=REACH))
    # packages without a model (every declaration form of C01's library, its package scenarios): the "nothing is
    # emitted twice" half - no two declarations of one kind and Python name in one owner, none in two files
    from ..scenarios import PACKAGE_SCENARIOS
    from . import c01

    for i in range(3 if tier == "quick" else 60):
        ks = c01.kitchen_sink(rng_for(seed, PID, "kitchen-sink", i), gated, 170 + i)
        cases.append(Case(cid=f"c03-kitchen-{i}", files=ks, opts=[["-nc"], [], ["-nc", "--docstyle", "google"], ["--docstyle", "numpydoc"]][i % 4], meta={}, reach=REACH))
    for k, (feat, sfiles, optsets) in enumerate(PACKAGE_SCENARIOS):
        if feat in gated:
            continue
        files = {"src/" + fk: ({"hex": fv.hex()} if isinstance(fv, bytes) else fv) for fk, fv in sfiles.items()}
        cases.append(Case(cid=f"c03-scenario-{feat}", files=files, opts=list(optsets[(k + seed) % len(optsets)]), meta={}, reach=REACH))
    return cases


def make_judge(chk: Check):
    def judge(case: Case, rec: dict, probe=None) -> list[Viol]:
        pkg = case.meta.get("pkg")
        ss = StubSet(rec["tree"])
        for e in ss.errors.values():
            chk.discarded[f"unparsable-stub:{e.rule}"] += 1
        if pkg is None:
            viols = []
            where_declared: dict = {}
            for rel, m in ss.files.items():
                seen = set()
                for d in m.walk():
                    key = (d.kind, d.path())
                    if key in seen:
                        viols.append(Viol("duplicate-in-file", f"model-free:{d.kind}", {"file": rel, "decl": d.path()}))
                    seen.add(key)
                    if d.owner is None:
                        where_declared.setdefault((m.py_module, d.kind, d.pyname), []).append(rel)
                    chk.case_ok(f"model-free:{d.kind}", ident=(case.cid, rel, d.path()))
            # (a name that several source modules declare at top level - 'class int' shadowing the builtin in two modules, both
            # re-exported into one package - is several declarations: only names with ONE declaration in the source are judged)
            import re as _re

            declared_in: dict = {}
            for fk, fv in case.files.items():
                if fk.endswith(".py") and isinstance(fv, str):
                    for nm_ in set(_re.findall(r"^(?:class|def|async def)\s+([A-Za-z_][A-Za-z0-9_]*)", fv, _re.M)):
                        declared_in[nm_] = declared_in.get(nm_, 0) + 1
            for (mod, kind, name), rels in where_declared.items():
                if len(set(rels)) > 1 and declared_in.get(name, 1) <= 1:
                    viols.append(Viol("declaration-emitted-twice", f"model-free:{kind}", {"python_module": mod, "name": name, "files": sorted(set(rels))}))
            return viols
        pubs = pg.publicity(pkg)
        viols = st.judge_presence(chk, pkg, ss, pubs)
        n = sum(1 for _ in pg.walk(pkg))
        chk.sample({"case": case.cid, "declarations": n, "stub_files": sorted(ss.files)[:8]}, limit=3)
        return viols

    return judge


def main(tier: str, seed: int) -> int:
    chk = Check(PID, tier, seed)
    cases = gen(tier, seed)
    judge = make_judge(chk)
    drive(chk, cases, judge, per_proc=3)
    chk.run_probes(lambda c, r, probe=None: judge(c, r), build_case=build_probe)
    chk.extra["gated_features"] = sorted(f for f in gated_features() if f.split(":")[0] in ("reexport", "overload", "enum", "inherit", "tree", "decl"))
    chk.assumptions = [
        "not generated / outside the claim: classes deriving from Exception, TypeVar class attributes, declarations nested in functions, module-level variables",
        "aliased re-exports count under the alias (the public Python name)",
    ]
    return chk.finish(
        rule="one case = one public ground-truth declaration looked up in the parsed stub set; distinct = (kind, how it is public, nesting depth); every case is non-trivial (a declaration that must be found exactly once)",
        min_cases=800 if tier == "quick" else 10000,
    )


def build_probe(f: dict) -> Case:
    pr = f["probe"]
    if "builder" in pr:
        from .. import probes

        pkg = getattr(probes, pr["builder"])()
        return Case(cid="probe:" + f["id"], files=pg.render(pkg), opts=pr.get("opts", []), meta={"pkg": pkg}, reach=REACH)
    raise ValueError("C03 probes are built from model builders")


def replay(path: str) -> int:
    return generic_replay(path, gen, make_judge)
