"""C06 -- parameter lists are reproduced exactly.

Workload: signatures enumerated exhaustively up to 4 parameters (every legal order of the five kinds, every
legal default subset) + seeded random signatures up to 10 parameters, placed on module functions, instance /
static / class methods and constructors.  Ground truth is cross-validated against inspect.signature of the
compiled source.  Oracle: parameter lists parsed from the stubs (count, order, recovered Python names, literal
default by value and type, optionality) and parameters[] of the API JSON (assigned_by, is_optional, default).
"""

from __future__ import annotations

import inspect
import itertools
import json
import math

from .. import sds
from ..core import Check, Viol, drive, generic_replay, rng_for
from ..run import Case
from ..stubs import StubSet, api_index

PID = "C06"

KINDS = ["po", "pk", "va", "ko", "vk"]  # position-only, position-or-keyword, *args, keyword-only, **kwargs
JSON_KIND = {"po": "POSITION_ONLY", "pk": "POSITION_OR_NAME", "va": "POSITIONAL_VARARG", "ko": "NAME_ONLY", "vk": "NAMED_VARARG"}

INT_DEFAULTS = ["0", "1", "7", "9223372036854775808", "1000000000000000000000000000000", "0xff", "1_000", "0b101"]
FLOAT_DEFAULTS = ["0.0", "1.5", "1e-05", "1e16", "2.25", "123456.789", "1e400", "2.5e17", "1e22", "9.999e20", "1e100", "1e-30", "2.5e-08", "5e-324", "1.7976931348623157e308", "-0.0", "0.1"]
STR_DEFAULTS = [
    '"a"', '""', '"hello world"', '"x_y"', '"A1"', '"with space "', '"ünï"',
    # characters the stub has to escape: the value (not only the syntax) has to survive
    "'say \"hi\"'", "'\"'", "'\"\"'", "'back\\\\slash'", "'\\\\'", "'\\\\\"'", "'\"\\\\'", "'tab\\tnl\\n'", "'{\"k\": 1}'", "'a\\\\\\\\b'", "\"it's\"",
]
OTHER_DEFAULTS = ["True", "False", "None"]
SIGNED = ["-1", "+1", "-2.5", "+0.5", "-0.0", "-9223372036854775809"]
NONLIT = ["CONST", "make()", "[]", "()", "{}", "(1, 2)"]
ANNOS = {
    "int": "int", "float": "float", "str": "str", "bool": "bool", "none": "int | None",
    "unresolved-name": "'ClassThatIsDefinedNowhere'", "unresolved-member": "'np.ndarray'", "not-a-type": "'1 + 2'",
}


def shapes(maxn: int):
    """Every legal sequence of kinds of length <= maxn."""
    for n in range(maxn + 1):
        for npo in range(n + 1):
            for npk in range(n - npo + 1):
                for va in (0, 1):
                    for nko in range(n - npo - npk - va + 1):
                        for vk in (0, 1):
                            if npo + npk + va + nko + vk == n:
                                yield ["po"] * npo + ["pk"] * npk + ["va"] * va + ["ko"] * nko + ["vk"] * vk


def default_masks(shape):
    """Every legal subset of parameters carrying a default."""
    pos = [i for i, k in enumerate(shape) if k in ("po", "pk")]
    kos = [i for i, k in enumerate(shape) if k == "ko"]
    for ndef in range(len(pos) + 1):  # positional defaults must be a suffix
        posdef = set(pos[len(pos) - ndef :])
        for r in range(len(kos) + 1):
            for sub in itertools.combinations(kos, r):
                yield posdef | set(sub)


def _pyvalue(src: str):
    return eval(src, {})  # noqa: S307 - our own literal text


def _unquote(text: str):
    try:
        return sds.unquote_string(text)
    except Exception:  # noqa: BLE001 - not a well-formed literal: not equal to anything
        return None


class SigGen:
    def __init__(self, rng) -> None:
        self.rng = rng
        self.n = 0

    def default_for(self, allow_nonlit: bool):
        r = self.rng.random()
        if allow_nonlit and r < 0.08:
            return ("nonlit", self.rng.choice(NONLIT), None)
        pool = self.rng.choice([INT_DEFAULTS, FLOAT_DEFAULTS, STR_DEFAULTS, OTHER_DEFAULTS, SIGNED])
        src = self.rng.choice(pool)
        return ("lit", src, _pyvalue(src))

    def build(self, shape, mask, allow_nonlit=True):
        names = ["a", "b_c", "dd", "e1", "f_g_h", "i", "jj_", "k2k", "l", "m_n", "o", "p_q"]
        self.rng.shuffle(names)
        params = []
        for i, k in enumerate(shape):
            name = names[i]
            if k == "va":
                name = self.rng.choice(["args", "rest", "va_r"])
            if k == "vk":
                name = self.rng.choice(["kwargs", "kw", "opts_x"])
            default = self.default_for(allow_nonlit) if i in mask else None
            anno = None
            if self.rng.random() < 0.45:
                if default is None or default[0] == "nonlit":
                    anno = self.rng.choice(["int", "str", "float", "bool"])
                else:
                    v = default[2]
                    anno = (
                        "none"
                        if v is None
                        else "bool"
                        if isinstance(v, bool)
                        else "int"
                        if isinstance(v, int)
                        else "float"
                        if isinstance(v, float)
                        else "str"
                    )
            if self.rng.random() < 0.06:
                # a written hint the type checker cannot resolve (misspelled forward reference, alias of a library that
                # is not imported): the parameter list - names, order, defaults - is what it is all the same
                anno = self.rng.choice(["unresolved-name", "unresolved-member", "not-a-type"])
            params.append({"name": name, "kind": k, "default": default, "anno": anno})
        return params


def render_params(params, receiver: str | None) -> str:
    parts = []
    if receiver:
        parts.append(receiver)
    kinds = [p["kind"] for p in params]
    for i, p in enumerate(params):
        k = p["kind"]
        if k == "ko" and (i == 0 or kinds[i - 1] not in ("va", "ko")):
            parts.append("*")
        s = {"va": "*", "vk": "**"}.get(k, "") + p["name"]
        if p["anno"]:
            s += ": " + ANNOS[p["anno"]]
        if p["default"] is not None:
            s += (" = " if p["anno"] else "=") + p["default"][1]
        parts.append(s)
        if k == "po" and (i + 1 == len(params) or kinds[i + 1] != "po"):
            parts.append("/")
    # a receiver followed directly by "/" would make the receiver position-only too: legal, keep
    return ", ".join(parts)


def overload_variants(params, receiver, rng, deco: str, name: str) -> tuple[str, list]:
    """Two '@overload' variants in front of an implementation: the first is narrower than the implementation (a prefix of its
    positional parameters, all annotated), the second spells the whole list.  The implementation is what Python calls (and what
    inspect.signature shows); half of the time it carries no annotation at all."""
    head = [q for q in params if q["kind"] in ("po", "pk")][: rng.randint(0, 2)]
    narrow = [dict(q, anno="int", default=None) for q in head]
    full = [dict(q, anno=q["anno"] or "str") for q in params]
    impl = [dict(q, anno=None) for q in params] if rng.random() < 0.5 else params
    ret = "" if impl is not params else " -> None"
    text = (
        f"    @overload\n{deco}    def {name}({render_params(narrow, receiver)}) -> None: ...\n\n"
        f"    @overload\n{deco}    def {name}({render_params(full, receiver)}) -> None: ...\n\n"
        f"{deco}    def {name}({render_params(impl, receiver)}){ret}: ...\n\n"
    )
    return text, impl


def build_package(idx: int, sigs: list, rng) -> tuple[dict, list]:
    """sigs: list of parameter lists.  Returns (files, ground truth list)."""
    gt = []
    mod_lines = {"m1": [], "m2": []}
    header = 'from typing import overload\n\nCONST = 3\n\n\ndef make():\n    return 1\n\n\n'
    cls_count = {"m1": 0, "m2": 0}
    i = 0
    n = len(sigs)
    while i < n:
        mod = "m1" if i % 2 == 0 else "m2"
        lines = mod_lines[mod]
        role = rng.choice(["func", "func", "class"])
        if role == "func":
            params = sigs[i]
            name = f"f_{i}"
            lines.append(f"def {name}({render_params(params, None)}) -> None: ...\n\n")
            gt.append({"id": f"pk/{mod}/{name}", "mod": mod, "path": name, "role": "func", "params": params, "receiver": None})
            i += 1
        else:
            cname = f"K{cls_count[mod]}x{i}"
            cls_count[mod] += 1
            lines.append(f"class {cname}:\n")
            members = rng.randint(1, 5)
            have_ctor = False
            for _ in range(members):
                if i >= n:
                    break
                params = sigs[i]
                kind = rng.choice(["inst", "inst", "static", "class", "ctor"])
                if kind == "ctor" and have_ctor:
                    kind = "inst"
                if kind == "ctor":
                    have_ctor = True
                    recv = rng.choice(["self", "self", "this"])
                    if rng.random() < 0.2:
                        text, params = overload_variants(params, recv, rng, "", "__init__")
                        lines.append(text)
                    else:
                        lines.append(f"    def __init__({render_params(params, recv)}) -> None: ...\n\n")
                    gt.append({"id": f"pk/{mod}/{cname}/__init__", "mod": mod, "path": cname, "role": "ctor", "params": params, "receiver": recv})
                elif kind == "inst":
                    recv = rng.choice(["self", "self", "me"])
                    name = f"m_{i}"
                    if rng.random() < 0.15:
                        text, params = overload_variants(params, recv, rng, "", name)
                        lines.append(text)
                    else:
                        lines.append(f"    def {name}({render_params(params, recv)}) -> None: ...\n\n")
                    gt.append({"id": f"pk/{mod}/{cname}/{name}", "mod": mod, "path": f"{cname}/{name}", "role": "inst", "params": params, "receiver": recv})
                elif kind == "static":
                    name = f"s_{i}"
                    if rng.random() < 0.15:
                        text, params = overload_variants(params, None, rng, "    @staticmethod\n", name)
                        lines.append(text)
                    else:
                        lines.append(f"    @staticmethod\n    def {name}({render_params(params, None)}) -> None: ...\n\n")
                    gt.append({"id": f"pk/{mod}/{cname}/{name}", "mod": mod, "path": f"{cname}/{name}", "role": "static", "params": params, "receiver": None})
                else:
                    recv = rng.choice(["cls", "cls", "klass"])
                    name = f"c_{i}"
                    lines.append(f"    @classmethod\n    def {name}({render_params(params, recv)}) -> None: ...\n\n")
                    gt.append({"id": f"pk/{mod}/{cname}/{name}", "mod": mod, "path": f"{cname}/{name}", "role": "class", "params": params, "receiver": recv})
                i += 1
            lines.append("\n")
    # methods of a private base class are shown in EVERY public subclass: the same source method is rendered several times
    for j in range(min(6, n // 8)):
        mod = "m1" if j % 2 == 0 else "m2"
        lines = mod_lines[mod]
        base = f"_PB{idx}x{j}"
        lines.append(f"class {base}:\n")
        members = []
        for k in range(rng.randint(2, 3)):
            params = sigs[rng.randrange(n)]
            kind = rng.choice(["inst", "inst", "static", "class"])
            name = f"{kind[0]}b_{j}_{k}"
            recv = {"inst": "self", "static": None, "class": "cls"}[kind]
            deco = {"inst": "", "static": "    @staticmethod\n", "class": "    @classmethod\n"}[kind]
            lines.append(f"{deco}    def {name}({render_params(params, recv)}) -> None: ...\n\n")
            members.append((name, kind, params, recv))
        lines.append("\n")
        for sub in "abc"[: rng.randint(2, 3)]:
            sname = f"Sub{idx}x{j}{sub}"
            lines.append(f"class {sname}({base}):\n    def own_{sub}(self) -> None: ...\n\n\n")
            for name, kind, params, recv in members:
                gt.append({"id": f"pk/{mod}/{base}/{name}", "mod": mod, "path": f"{sname}/{name}", "role": kind + "-inherited", "params": params, "receiver": recv})
    files = {"src/pk/__init__.py": ""}
    for mod, lines in mod_lines.items():
        files[f"src/pk/{mod}.py"] = header + "".join(lines)
    return files, gt


def validate_gt(files: dict, gt: list) -> str | None:
    """Cross-check the ground truth against CPython (inspect.signature) -- None if consistent."""
    kindmap = {
        inspect.Parameter.POSITIONAL_ONLY: "po",
        inspect.Parameter.POSITIONAL_OR_KEYWORD: "pk",
        inspect.Parameter.VAR_POSITIONAL: "va",
        inspect.Parameter.KEYWORD_ONLY: "ko",
        inspect.Parameter.VAR_KEYWORD: "vk",
    }
    spaces = {}
    for mod in ("m1", "m2"):
        ns: dict = {}
        try:
            exec(compile(files[f"src/pk/{mod}.py"], f"{mod}.py", "exec"), ns)  # noqa: S102 - generated by us
        except SyntaxError as e:
            return f"generated source does not compile: {e}"
        spaces[mod] = ns
    for g in gt:
        ns = spaces[g["mod"]]
        parts = g["path"].split("/")
        obj = ns[parts[0]]
        if g["role"] == "ctor":
            fn = obj.__init__
        elif len(parts) == 2:
            fn = inspect.getattr_static(obj, parts[1])
            if isinstance(fn, (staticmethod, classmethod)):
                fn = fn.__func__
        else:
            fn = obj
        ps = list(inspect.signature(fn).parameters.values())
        if g["receiver"]:
            if not ps or ps[0].name != g["receiver"]:
                return f"receiver mismatch for {g['id']}"
            ps = ps[1:]
        if len(ps) != len(g["params"]):
            return f"length mismatch for {g['id']}"
        for p, q in zip(ps, g["params"], strict=True):
            if p.name != q["name"] or kindmap[p.kind] != q["kind"]:
                # a receiver directly before '/' turns nothing else; kinds must agree
                return f"parameter mismatch for {g['id']}: {p} vs {q}"
            if (p.default is inspect.Parameter.empty) != (q["default"] is None):
                return f"default presence mismatch for {g['id']}: {p}"
            if q["default"] is not None and q["default"][0] == "lit":
                a, b = p.default, q["default"][2]
                if type(a) is not type(b) or (a != b and not (isinstance(a, float) and math.isnan(a))):
                    return f"default value mismatch for {g['id']}"
    return None


def gen(tier: str, seed: int) -> list[Case]:
    rng = rng_for(seed, PID, "gen")
    sg = SigGen(rng)
    sigs = []
    exhaustive_n = 4
    for shape in shapes(exhaustive_n):
        for mask in default_masks(shape):
            sigs.append(sg.build(shape, mask))
    n_exh = len(sigs)
    n_random = 1500 if tier == "quick" else 160000
    all_shapes = list(shapes(10))
    big = [s for s in all_shapes if len(s) > 4]
    for _ in range(n_random):
        shape = rng.choice(big)
        masks = None
        # sample one legal mask without enumerating all of them
        pos = [i for i, k in enumerate(shape) if k in ("po", "pk")]
        kos = [i for i, k in enumerate(shape) if k == "ko"]
        ndef = rng.randint(0, len(pos))
        mask = set(pos[len(pos) - ndef :]) | {i for i in kos if rng.random() < 0.5}
        del masks
        sigs.append(sg.build(shape, mask))
    rng.shuffle(sigs)
    per_pkg = 420 if tier == "quick" else 700
    cases = []
    for pi, start in enumerate(range(0, len(sigs), per_pkg)):
        part = sigs[start : start + per_pkg]
        files, gt = build_package(pi, part, rng)
        opts = ["-nc"] if pi % 2 == 1 else []
        cases.append(Case(cid=f"c06-{pi}", files=files, opts=opts, meta={"gt": gt, "n_exhaustive": n_exh, "nc": bool(opts)}))
    return cases


def sig_signature(g) -> str:
    return g["role"] + ":" + ",".join(
        p["kind"] + ("=" + (type(p["default"][2]).__name__ if p["default"][0] == "lit" else "nonlit") if p["default"] else "")
        for p in g["params"]
    )


def make_judge(chk: Check):
    def judge(case: Case, rec: dict, probe=None) -> list[Viol]:
        viols: list[Viol] = []
        ss = StubSet(rec["tree"])
        for rel, e in ss.errors.items():
            # not this property's subject, but a file we cannot read cannot be judged
            chk.discarded[f"unparsable-stub:{e.rule}"] += 1
        api = ss.api()
        aidx = api_index(api) if api else {}
        byname = ss.by_pyname()
        def judge_json(g, exp, where) -> bool:
            ok = True
            if aidx:
                fn = aidx.get("functions", {}).get(g["id"])
                if fn is None:
                    viols.append(Viol("json-function-missing", where, {"id": g["id"]}))
                    ok = False
                else:
                    jparams = [aidx.get("parameters", {}).get(pid) for pid in fn["parameters"]]
                    jexp = ([{"name": g["receiver"], "kind": "IMPLICIT", "default": None}] if g["receiver"] else []) + [
                        {"name": p["name"], "kind": JSON_KIND[p["kind"]], "default": p["default"]} for p in exp
                    ]
                    if len(jparams) != len(jexp) or any(j is None for j in jparams):
                        viols.append(Viol("json-param-count", where, {"id": g["id"], "json": fn["parameters"]}))
                        ok = False
                    else:
                        for jp, je in zip(jparams, jexp, strict=True):
                            if jp["name"] != je["name"]:
                                viols.append(Viol("json-param-name", where, {"id": g["id"], "json": jp["name"], "expected": je["name"]}))
                                ok = False
                                break
                            if jp["assigned_by"] != je["kind"]:
                                viols.append(Viol("json-assigned-by", f"{where}:{je['kind']}", {"id": jp["id"], "json": jp["assigned_by"], "expected": je["kind"]}))
                                ok = False
                            dflt = je["default"]
                            if dflt is not None and dflt[0] == "lit":
                                if jp["is_optional"] is not True:
                                    viols.append(Viol("json-is-optional", f"{where}:{je['kind']}", {"id": jp["id"], "json": jp["is_optional"], "expected": True}))
                                    ok = False
                                want = dflt[2]
                                jv = jp["default_value"]
                                if isinstance(want, str):
                                    # the JSON holds the string as a quoted literal (escaped like the one in the stub)
                                    good = jv == want or (isinstance(jv, str) and len(jv) >= 2 and jv[0] == jv[-1] == '"' and _unquote(jv) == want)
                                elif isinstance(want, float) and (math.isinf(want) or math.isnan(want)):
                                    good = isinstance(jv, float) and repr(jv) == repr(want)
                                else:
                                    good = type(jv) is type(want) and jv == want
                                if not good:
                                    viols.append(Viol("json-default-value", f"{where}:{je['kind']}:{type(want).__name__}", {"id": jp["id"], "json": jv, "expected": dflt[1]}))
                                    ok = False
                            elif dflt is None and jp["is_optional"] is not False:
                                viols.append(Viol("json-is-optional", f"{where}:{je['kind']}", {"id": jp["id"], "json": jp["is_optional"], "expected": False}))
                                ok = False

            return ok

        for g in case.meta["gt"]:
            where = f"{g['role']}"
            json_ok = judge_json(g, g["params"], where)
            chk.counters["signatures_judged_in_api_json"] += 1
            hits = byname.get(g["path"], [])
            hits = [h for h in hits if h[1].py_module == f"pk.{g['mod']}"]
            if len(hits) != 1:
                # presence/uniqueness is C03's subject; C06 speaks about *emitted* functions
                chk.discarded["declaration-not-found-once"] += 1
                continue
            _rel, _m, d = hits[0]
            got = d.params if d.params is not None else []
            exp = g["params"]
            sig = sig_signature(g)
            if len(got) != len(exp):
                viols.append(Viol("param-count", where, {"id": g["id"], "expected": [p["name"] for p in exp], "stub": [p.pyname for p in got], "sig": sig}))
                continue
            ok = True
            for sp, gp in zip(got, exp, strict=True):
                if sp.pyname != gp["name"]:
                    viols.append(Viol("param-name-or-order", where, {"id": g["id"], "expected": [p["name"] for p in exp], "stub": [p.pyname for p in got]}))
                    ok = False
                    break
                dflt = gp["default"]
                if dflt is None:
                    if sp.default is not None:
                        viols.append(Viol("default-invented", f"{where}:{gp['kind']}", {"id": g["id"], "param": gp["name"], "stub_default": sp.default}))
                        ok = False
                elif dflt[0] == "lit":
                    if sp.default is None:
                        viols.append(Viol("default-lost", f"{where}:{gp['kind']}:{type(dflt[2]).__name__}", {"id": g["id"], "param": gp["name"], "python_default": dflt[1]}))
                        ok = False
                    else:
                        val, ty = sds.decode_literal(sp.default)
                        want = dflt[2]
                        wty = "none" if want is None else type(want).__name__
                        same = ty == wty and (val == want or (isinstance(want, float) and math.isnan(want) and math.isnan(val)))
                        if same and isinstance(want, float) and want == 0.0:
                            same = math.copysign(1, want) == math.copysign(1, val)
                        if not same:
                            viols.append(
                                Viol(
                                    "default-value",
                                    f"{where}:{gp['kind']}:{wty}",
                                    {"id": g["id"], "param": gp["name"], "python_default": dflt[1], "stub_default": sp.default[1]},
                                ),
                            )
                            ok = False
            ok = ok and json_ok
            chk.case_ok(sig)
            if ok and len(exp) >= 3:
                chk.sample({"python": g["id"] + "(" + render_params(exp, g["receiver"]) + ")", "stub": [(p.pyname, p.default[1] if p.default else None) for p in got]}, limit=3)
        return viols

    return judge


def main(tier: str, seed: int) -> int:
    chk = Check(PID, tier, seed)
    cases = gen(tier, seed)
    for c in cases:
        bad = validate_gt(c.files, c.meta["gt"])
        if bad:
            chk.inconc(f"ground truth disagrees with CPython: {bad}")
            return chk.finish("n/a", 1)
    judge = make_judge(chk)
    drive(chk, cases, judge, per_proc=1)
    chk.run_probes(lambda c, r, probe=None: judge(c, r))
    chk.extra["exhaustive_parts"] = f"all {cases[0].meta['n_exhaustive']} (kind sequence x default subset) signatures with <= 4 parameters"
    chk.extra["packages"] = len(cases)
    chk.extra["naming_settings"] = sorted({str(c.meta["nc"]) for c in cases})
    chk.assumptions = [
        "instance/class methods whose first parameter is *args are not generated (receiver is inside *args)",
        "non-literal defaults (names, calls, containers) are only required not to change the list length",
        "string defaults come from a safe alphabet here (hostile strings are C02's workload)",
    ]
    return chk.finish(
        rule=(
            "one case = one function/method/constructor signature judged against its stub parameter list and JSON "
            "parameters; distinct = distinct (role, kind sequence, default-type pattern) signatures; trivial (0 "
            "parameter) signatures are included in the count only once"
        ),
        min_cases=1500 if tier == "quick" else 20000,
    )


def replay(path: str) -> int:
    return generic_replay(path, gen, make_judge)
