"""C12 -- the API JSON is a complete, internally consistent inventory.

Oracle: json_ref (structural rules of the statement) on the file loaded with a JSON parser + completeness and flag
comparison against the generator's ground-truth model.
"""

from __future__ import annotations

import json

from .. import pkggen as pg
from ..core import Check, Viol, drive, gated_features, generic_replay, rng_for, noise_opts
from ..run import Case

PID = "C12"
REACH = [
    "API.to_dict",
    "Module.to_dict",
    "Class.to_dict",
    "Function.to_dict",
    "Enum.to_dict",
    "Parameter.to_dict",
    "Result.to_dict",
    "Attribute.to_dict",
    "MyPyAstVisitor._create_id_from_stack",
    "MyPyAstVisitor.enter_classdef",
]
LISTS = ["modules", "classes", "functions", "results", "enums", "enum_instances", "attributes", "parameters"]


def gen(tier: str, seed: int) -> list[Case]:
    rng = rng_for(seed, PID, "gen")
    gated = gated_features()
    cfg = pg.GenCfg()
    cfg.shared_member_names = True
    cfg.reexport_forms = tuple(f for f in pg.ALL_REEXPORT_FORMS if f"reexport:{f}" not in gated)
    cfg.private_enums = True  # the inventory contains private declarations too
    cfg.inheritance = True
    cfg.twins = True  # modules of the same name (and some equal declaration names) in different packages
    n = 24 if tier == "quick" else 1600
    cases = []
    for i in range(n):
        pkg = pg.random_pkg(rng, cfg)
        add_inheritance(rng, pkg)
        add_defaults(rng, pkg)
        add_parameters_after_defaults(rng, pkg)
        cases.append(Case(cid=f"c12-{i}", files=pg.render(pkg), opts=(["-nc"] if i % 4 == 3 else []) + noise_opts(seed, PID, i), meta={"pkg": pkg}, reach=REACH))
    for name, pkg in scenarios(rng).items():
        cases.append(Case(cid=f"c12-scn-{name}", files=pg.render(pkg), opts=[], meta={"pkg": pkg}, reach=REACH))
    # structure and references of the inventory for every declaration form of C01's library, its package scenarios and
    # interface stubs whose results only the docstring knows, under the structured docstring styles too
    from ..scenarios import PACKAGE_SCENARIOS
    from . import c01

    for i in range(3 if tier == "quick" else 40):
        ks = c01.kitchen_sink(rng_for(seed, PID, "kitchen-sink", i), gated, 130 + i)
        cases.append(Case(cid=f"c12-kitchen-{i}", files=ks, opts=[["--docstyle", "numpydoc"], ["--docstyle", "google", "-tsp", "docstring"], ["-nc", "--docstyle", "rest"], []][i % 4], meta={}, reach=REACH))
    for k, (feat, sfiles, optsets) in enumerate(PACKAGE_SCENARIOS):
        if feat in gated:
            continue
        files = {"src/" + fk: ({"hex": fv.hex()} if isinstance(fv, bytes) else fv) for fk, fv in sfiles.items()}
        cases.append(Case(cid=f"c12-scenario-{feat}", files=files, opts=list(optsets[(k + seed) % len(optsets)]), meta={}, reach=REACH))
    for style, doc in (("numpydoc", "Returns\n    -------\n    value : int\n        Told by the docstring only.\n"), ("google", "Returns:\n        int: Told by the docstring only.\n"), ("rest", ":returns: Told by the docstring only.\n    :rtype: int\n")):
        src = (
            f'class Interface:\n    def lookup(self, key):\n        """Look up.\n\n    {doc}    """\n        raise NotImplementedError\n\n'
            "    def __init__(self, n=0):\n        self.n = n\n\n    def clear(self):\n        pass\n\n\n"
            f'def first(key):\n    """First.\n\n    {doc}    """\n    ...\n\n\ndef close():\n    pass\n\n\ndef reset(n=0):\n    n += 1\n\n\n'
            "class Holder:\n    def __init__(self):\n        self.items = []\n\n    def wipe(self):\n        ...\n"
        )
        # many results (result_10 sorts before result_2) and documented result names that are not in alphabetical order
        named = {"numpydoc": "Returns\n    -------\n    width : int\n        W.\n    height : int\n        H.\n    depth : int\n        D.\n", "google": "Returns:\n        width (int): W.\n        height (int): H.\n        depth (int): D.\n", "rest": ":returns: Three sizes.\n    :rtype: tuple[int, int, int]\n"}[style]
        src += (
            "\n\ndef wide() -> tuple[int, str, int, str, int, str, int, str, int, str, int, str]:\n    ...\n\n\n"
            "def wide_inferred(n=0):\n    return 1, 'a', 2.0, True, 1, 'a', 2.0, True, 1, 'a', 2.0\n\n\n"
            f'def sizes() -> tuple[int, int, int]:\n    """Sizes.\n\n    {named}    """\n    return 1, 2, 3\n\n\n'
            f'class Box:\n    def sizes(self) -> tuple[int, int, int]:\n        """Sizes.\n\n    {named}    """\n        return 1, 2, 3\n'
        )
        if style == "numpydoc":
            # more documented results than the code yields, the additional ones typed and without name
            more = "Returns\n    -------\n    int\n        First.\n    str\n        Second.\n    float\n        Third.\n"
            src += (
                f'\n\ndef split_one() -> int:\n    """Split.\n\n    {more}    """\n    return 1\n\n\n'
                f'def split_pair() -> tuple[int, str]:\n    """Split.\n\n    {more}    """\n    return 1, "a"\n\n\n'
                f'def split_inferred(n=0):\n    """Split.\n\n    {more}    """\n    return 1\n\n\n'
                f'class Splitter:\n    def split(self) -> int:\n        """Split.\n\n    {more}    """\n        return 1\n'
            )
        cases.append(Case(cid=f"c12-docstring-results-{style}", files={"src/pk/__init__.py": "", "src/pk/a_iface.py": src, "src/pk/z_more.py": "def later():\n    pass\n\n\nclass Late:\n    def __init__(self, q=1):\n        self.q = q\n"}, opts=["--docstyle", style], meta={}, reach=REACH))
    return cases


def scenarios(rng) -> dict:
    """Deterministic shapes aimed at name resolution that is shared between modules (run on every seed)."""
    out = {}
    # one class name defined in several modules, each definition subclassed in a module of its own, the name used in
    # expressions too; modules are named so that every processing order occurs in some pair
    pkg = pg.Pkg()
    defs = ["alpha", "beta", "zeta", "gamma"]
    rng.shuffle(defs)
    for k, d in enumerate(defs):
        base = pg.Cls("Base", methods=[pg.Fn(f"from_{d}", [], "int", role="inst")])
        pkg.modules.append(pg.Mod(("pk",), d, decls=[base, pg.Fn(f"make_{d}", [], "Base", body="return Base()")]))
        child = pg.Cls(f"Child{d.capitalize()}", bases=["Base"], cattrs=[pg.Attr(f"origin_{d}", "type", "Base")])
        child.meta_bases = [f"pk.{d}.Base"]
        user = pg.Mod(("pk",), f"{'use' if k % 2 else 'an'}_{d}", imports=[f"from pk.{d} import Base"], decls=[child, pg.Fn(f"build_{d}", [], "Base", body="return Base()")])
        pkg.modules.append(user)
    out["same-class-name-in-several-modules"] = pkg
    return out


def add_inheritance(rng, pkg: pg.Pkg) -> None:
    """Public and private, single and multiple, same-module, imported and aliased superclasses."""
    tops = [(m, d) for m in pkg.modules for d in m.decls if isinstance(d, pg.Cls)]
    for m, c in tops:
        if rng.random() < 0.4:
            k = rng.choice([1, 1, 2])
            cands = [(m2, c2) for m2, c2 in tops if c2 is not c and not _derives(c2, c, tops)]
            rng.shuffle(cands)
            for m2, c2 in cands[:k]:
                if m2 is m:
                    if m.decls.index(c2) > m.decls.index(c):
                        continue  # base must be defined first
                    c.bases.append(c2.name)
                    c.meta_bases = getattr(c, "meta_bases", []) + [f"{m2.qname}.{c2.name}"]
                elif rng.random() < 0.5 and not _binds(m, c2.name, f"from {m2.qname} import {c2.name}"):
                    line = f"from {m2.qname} import {c2.name}"
                    if line not in m.imports:
                        m.imports.append(line)
                    c.bases.append(c2.name)
                    c.meta_bases = getattr(c, "meta_bases", []) + [f"{m2.qname}.{c2.name}"]
                else:
                    alias = f"Base{len(m.imports)}Of{c.name.strip('_')}"
                    m.imports.append(f"from {m2.qname} import {c2.name} as {alias}")
                    c.bases.append(alias)
                    c.meta_bases = getattr(c, "meta_bases", []) + [f"{m2.qname}.{c2.name}"]


def _binds(m: pg.Mod, name: str, but: str = "") -> bool:
    """The module already binds ``name`` (own declaration or another import): a second plain import would rebind it."""
    if any(getattr(d, "name", None) == name for d in m.decls):
        return True
    return any(ln != but and (ln.endswith(f" import {name}") or ln.endswith(f" as {name}")) for ln in m.imports)


def _derives(a: pg.Cls, b: pg.Cls, tops) -> bool:
    """a derives (transitively) from b, by the qualified names recorded so far."""
    byq = {f"{m.qname}.{c.name}": c for m, c in tops}
    seen = set()
    stack = list(getattr(a, "meta_bases", []))
    bq = [q for q, c in byq.items() if c is b]
    while stack:
        q = stack.pop()
        if q in seen:
            continue
        seen.add(q)
        if q in bq:
            return True
        c = byq.get(q)
        if c is not None:
            stack += getattr(c, "meta_bases", [])
    return False


def add_defaults(rng, pkg: pg.Pkg) -> None:
    for g in pg.walk(pkg):
        f = g.obj
        if isinstance(f, pg.Fn):
            seen_default = False
            for p in f.params:
                if seen_default or rng.random() < 0.3:
                    seen_default = True
                    if p.anno in ("int", "int | None"):
                        p.default = rng.choice(["0", "7", "-3"])
                    elif p.anno == "str":
                        p.default = rng.choice(['"a"', '"b c"'])
                    elif p.anno == "float":
                        p.default = rng.choice(["1.5", "-0.25"])
                    elif p.anno == "bool":
                        p.default = rng.choice(["True", "False"])
                    else:
                        p.default = "None"
                        p.anno = f"{p.anno} | None" if p.anno and "None" not in p.anno else p.anno


def add_parameters_after_defaults(rng, pkg: pg.Pkg) -> None:
    """Parameters WITHOUT default behind parameters with one: *args, keyword-only parameters, **kwargs."""
    for g in pg.walk(pkg):
        f = g.obj
        if isinstance(f, pg.Fn) and f.role != "prop" and f.params and all(p.kind == "pk" for p in f.params) and rng.random() < 0.4:
            tail = rng.choice([["va"], ["ko"], ["vk"], ["va", "ko"], ["ko", "vk"], ["va", "ko", "vk"]])
            for k in tail:
                f.params.append(pg.Param({"va": "rest_args", "ko": "flag_kw", "vk": "more_opts"}[k] + str(len(f.params)), "int", None, k))


def structural(api: dict) -> list[Viol]:
    """json_ref: the rules of the statement that need no ground truth."""
    v: list[Viol] = []
    if api.get("schemaVersion") != 1:
        v.append(Viol("schema-version", "top", {"value": api.get("schemaVersion")}))
    ids: dict = {}
    for key in LISTS:
        lst = api.get(key)
        if not isinstance(lst, list):
            v.append(Viol("list-missing", key, {}))
            continue
        these = [e.get("id") for e in lst]
        if these != sorted(these):
            v.append(Viol("list-not-sorted", key, {"first_out_of_order": next((b for a, b in zip(these, these[1:], strict=False) if a > b), None)}))
        if len(set(these)) != len(these):
            dup = sorted({x for x in these if these.count(x) > 1})[:3]
            v.append(Viol("duplicate-id", key, {"ids": dup}))
        ids[key] = {e["id"]: e for e in lst}
    if len(ids) != len(LISTS):
        return v
    refs: dict = {k: {} for k in LISTS}

    def ref(kind, target, owner):
        if target not in ids[kind]:
            v.append(Viol("dangling-reference", kind, {"owner": owner, "target": target}))
        refs[kind].setdefault(target, []).append(owner)

    def form(kind, entry, owner_id):
        exp = f"{owner_id}/{entry['name']}"
        if entry["id"] != exp:
            v.append(Viol("id-form", kind, {"id": entry["id"], "expected": exp}))

    for m in ids["modules"].values():
        for c in m["classes"]:
            ref("classes", c, m["id"])
            if c in ids["classes"]:
                form("classes", ids["classes"][c], m["id"])
        for f in m["functions"]:
            ref("functions", f, m["id"])
            if f in ids["functions"]:
                form("functions", ids["functions"][f], m["id"])
        for e in m["enums"]:
            ref("enums", e, m["id"])
            if e in ids["enums"]:
                form("enums", ids["enums"][e], m["id"])
    for c in ids["classes"].values():
        for a in c["attributes"]:
            ref("attributes", a, c["id"])
            if a in ids["attributes"]:
                form("attributes", ids["attributes"][a], c["id"])
        for f in c["methods"]:
            ref("functions", f, c["id"])
            if f in ids["functions"]:
                form("functions", ids["functions"][f], c["id"])
        for c2 in c["classes"]:
            ref("classes", c2, c["id"])
            if c2 in ids["classes"]:
                form("classes", ids["classes"][c2], c["id"])
        if c.get("constructor"):
            ref("functions", c["constructor"]["id"], c["id"])
            form("functions", c["constructor"], c["id"])
        for r in c.get("reexported_by", []):
            if r not in ids["modules"]:
                v.append(Viol("dangling-reference", "modules", {"owner": c["id"], "target": r}))
    for f in ids["functions"].values():
        for p in f["parameters"]:
            ref("parameters", p, f["id"])
            if p in ids["parameters"]:
                form("parameters", ids["parameters"][p], f["id"])
        for r in f["results"]:
            ref("results", r, f["id"])
            if r in ids["results"]:
                form("results", ids["results"][r], f["id"])
        for r in f.get("reexported_by", []):
            if r not in ids["modules"]:
                v.append(Viol("dangling-reference", "modules", {"owner": f["id"], "target": r}))
    for e in ids["enums"].values():
        for i in e["instances"]:
            ref("enum_instances", i, e["id"])
            if i in ids["enum_instances"]:
                form("enum_instances", ids["enum_instances"][i], e["id"])
    for kind in LISTS[1:]:
        for i in ids[kind]:
            owners = refs[kind].get(i, [])
            if len(owners) != 1:
                v.append(Viol("owner-count", kind, {"id": i, "owners": owners[:4]}))
    return v


def make_judge(chk: Check):
    def judge(case: Case, rec: dict, probe=None) -> list[Viol]:
        viols: list[Viol] = []
        jf = [k for k in rec["tree"] if k.endswith("__api.json")]
        if len(jf) != 1:
            return [Viol("api-file-count", "top", {"files": jf})]
        try:
            api = json.loads(rec["tree"][jf[0]])
        except ValueError as e:
            return [Viol("invalid-json", "top", {"error": str(e)[:200]})]
        viols += structural(api)
        chk.case_ok(f"structural:{min(len(api.get('classes', [])), 5)}:{min(len(api.get('enums', [])), 3)}")
        pkg: pg.Pkg | None = case.meta.get("pkg")
        if pkg is None:
            return viols  # packages without a model (form library, scenarios): structure and references only
        ids = {k: {e["id"]: e for e in api.get(k, [])} for k in LISTS}
        # modules (packages appear as <pkg path> with name __init__)
        for m in pkg.modules:
            mid = "/".join((*m.pkg, m.name))
            if mid not in ids["modules"]:
                viols.append(Viol("missing-module", "module", {"id": mid}))
        for p in pkg.packages():
            pid_ = "/".join(p)
            if pid_ not in ids["modules"]:
                viols.append(Viol("missing-module", "package", {"id": pid_}))
        for g in pg.walk(pkg):
            kind = g.kind
            where = kind
            if kind in ("class", "nested-class"):
                e = ids["classes"].get(g.id)
                if e is None:
                    viols.append(Viol("missing-entry", where, {"id": g.id}))
                    continue
                exp = getattr(g.obj, "meta_bases", [])
                if e["superclasses"] != exp:
                    viols.append(Viol("superclasses", where, {"id": g.id, "json": e["superclasses"], "expected": exp}))
                chk.case_ok(f"class:{len(exp)}:{len(g.path)}", ident=(case.cid, g.id))
            elif kind in ("function", "method", "property", "ctor"):
                e = ids["functions"].get(g.id)
                if e is None:
                    viols.append(Viol("missing-entry", where, {"id": g.id}))
                    continue
                f = g.obj
                role = f.role if f is not None else "ctor"
                flags = (e["is_static"], e["is_class_method"], e["is_property"])
                expf = (role == "static", role == "class", role == "prop")
                if flags != expf:
                    viols.append(Viol("function-flags", f"{where}:{role}", {"id": g.id, "json(static,classmethod,property)": flags, "expected": expf}))
                params = f.params if f is not None else []
                for p in params:
                    pe = ids["parameters"].get(f"{g.id}/{p.name}")
                    if pe is None:
                        viols.append(Viol("missing-entry", "parameter", {"id": f"{g.id}/{p.name}"}))
                        continue
                    if p.default is None:
                        if pe.get("default_value") is not None or pe.get("is_optional"):
                            viols.append(Viol("default-invented", f"parameter:{p.kind}", {"id": pe["id"], "json_default": pe.get("default_value"), "json_is_optional": pe.get("is_optional")}))
                    if p.default is not None:
                        want = eval(p.default, {})  # noqa: S307 - our own literal
                        got = pe["default_value"]
                        ok = (got in (want, f'"{want}"')) if isinstance(want, str) else (type(got) is type(want) and got == want)
                        if not ok:
                            viols.append(Viol("default-value", f"parameter:{type(want).__name__}", {"id": pe["id"], "json": got, "expected": p.default}))
                if role in ("inst", "prop", "ctor", "class") and f"{g.id}/{'cls' if role == 'class' else 'self'}" not in ids["parameters"]:
                    viols.append(Viol("missing-entry", "receiver", {"id": g.id}))
                chk.case_ok(f"function:{role}:{len(params)}", ident=(case.cid, g.id))
            elif kind in ("cattr", "iattr"):
                e = ids["attributes"].get(g.id)
                if e is None:
                    viols.append(Viol("missing-entry", where, {"id": g.id}))
                    continue
                if e["is_static"] != (kind == "cattr"):
                    viols.append(Viol("attribute-static-flag", where, {"id": g.id, "json": e["is_static"]}))
                chk.case_ok(f"attr:{kind}", ident=(case.cid, g.id))
            elif kind == "enum":
                if g.id not in ids["enums"]:
                    viols.append(Viol("missing-entry", where + (":nested" if len(g.path) > 1 else ""), {"id": g.id}))
                chk.case_ok("enum")
            elif kind == "variant":
                if g.id not in ids["enum_instances"]:
                    viols.append(Viol("missing-entry", where, {"id": g.id}))
                chk.case_ok("variant")
        chk.sample({"case": case.cid, "json_entries": {k: len(v) for k, v in ids.items()}}, limit=3)
        return viols

    return judge


def main(tier: str, seed: int) -> int:
    chk = Check(PID, tier, seed)
    cases = gen(tier, seed)
    judge = make_judge(chk)
    drive(chk, cases, judge, per_proc=3)
    from .c03 import build_probe as build_model_probe

    def build_probe(f: dict) -> Case:
        pr = f["probe"]
        if "builder" in pr:
            return build_model_probe(f)
        return Case(cid="probe:" + f["id"], files=pr["files"], opts=pr.get("opts", []), meta={}, reach=REACH)  # structure and references only

    chk.run_probes(lambda c, r, probe=None: judge(c, r), build_case=build_probe)
    chk.assumptions = ["superclass qualified names are compared for classes of the package (aliases resolved to the defining module)"]
    return chk.finish(
        rule="one case = one ground-truth element looked up in the JSON with its flags (plus one structural pass per file); distinct = (kind, role/arity/nesting); all non-trivial",
        min_cases=1500 if tier == "quick" else 20000,
    )


def replay(path: str) -> int:
    return generic_replay(path, gen, make_judge)
