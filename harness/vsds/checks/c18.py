"""C18 -- a module's stub depends only on what the module uses.

Relation between runs: package P and variants P' that add / remove / rename / edit a module outside the dependency
cone of a module M (incl. modules that REUSE the class and function names of P -- hostile to tables keyed by short
name) must give a byte-identical stub for M; permuting M's top-level declarations may only permute the corresponding
declarations of its stub.
"""

from __future__ import annotations

import copy

from .. import pkggen as pg
from ..core import Check, Viol, gated_features, rng_for, noise_opts
from ..run import Case, run_many
from ..stubs import StubSet
from . import c09, c10, c11

PID = "C18"
REACH = [
    "_get_aliases",
    "MyPyAstVisitor._find_alias",
    "MyPyAstVisitor._search_alias_in_qualified_imports",
    "MyPyAstVisitor.mypy_type_to_abstract_type",
    "MyPyAstVisitor._get_reexported_by",
    "_get_shortest_public_reexport",
    "StubsStringGenerator._add_to_imports",
]


SORTED = {"dir_seed": 0, "dir_mode": "sorted"}  # same enumeration order in base and variant: neighbours are neighbours


def imports_of(m: pg.Mod) -> set:
    out = set()
    for ln in m.imports:
        if ln.startswith("from pk"):
            out.add(ln.split()[1])
        elif ln.startswith("import pk"):
            out.add(ln.split()[1])
        elif ln.startswith("from ."):
            # relative spelling: resolved against the module's package
            spec = ln.split()[1]
            dots = len(spec) - len(spec.lstrip("."))
            basepath = list(m.pkg)[: len(m.pkg) - (dots - 1)]
            rest = spec.lstrip(".")
            if rest:
                out.add(".".join([*basepath, rest]))
            else:
                out.update(".".join([*basepath, n.strip().split(" as ")[0]]) for n in ln.split(" import ", 1)[1].split(","))
    return out


def cone(pkg: pg.Pkg, m: pg.Mod) -> set:
    """Qualified names of the modules M depends on (transitively), M included."""
    byq = {x.qname: x for x in pkg.modules}
    seen = {m.qname}
    stack = [m]
    while stack:
        cur = stack.pop()
        for q in imports_of(cur):
            if q in byq and q not in seen:
                seen.add(q)
                stack.append(byq[q])
    return seen


def attributable(pkg: pg.Pkg, m: pg.Mod, tree: dict) -> dict:
    """The output files whose content comes from module M: its own stub and the per-declaration files of the
    packages that re-export its declarations."""
    out = {}
    mid = "/".join((*m.pkg, m.name))
    own = f"{mid}/{m.name.lstrip('_')}.sdsstub"
    if own in tree:
        out[own] = tree[own]
    for p, res in pkg.inits.items():
        for r in res:
            if r.form == "name" and r.module == m.qname:
                f = "/".join(p) + "/" + (r.alias or r.name).lstrip("_") + ".sdsstub"
                if f in tree:
                    out[f] = tree[f]
    return out


def add_unresolvable_imports(rng, pkg: pg.Pkg) -> None:
    """Classes of a library the type checker cannot find, used as parameter types (resolved through the module's own
    import lines, never through package-wide tables)."""
    for i, m in enumerate(pkg.modules):
        if rng.random() < 0.6:
            w = f"Widget{i % 3}"
            m.imports.append(f"from extlib_not_installed.parts import {w}")
            m.decls.append(pg.Fn(f"takes_widget_{i}", [pg.Param("w", w), pg.Param("n", "int")], "None"))


def add_typevars(rng, pkg: pg.Pkg) -> None:
    """The same type-variable names in many modules: generic classes in some, generic methods of plain classes and
    generic functions in others (per-class and per-module generator state must not leak between modules)."""
    for i, m in enumerate(pkg.modules):
        r = rng.random()
        if r < 0.25:
            continue
        m.imports.append("from typing import Generic, TypeVar")
        src = ['\nT = TypeVar("T")\nU = TypeVar("U")\n\n']
        if r < 0.55:
            src.append(f"\nclass GenericBox{i}(Generic[T]):\n    def put(self, item: T) -> T: ...\n\n    def both(self, a: T, b: U) -> U: ...\n\n")
        else:
            src.append(f"\nclass PlainPicker{i}:\n    def pick(self, first: T, second: T) -> T: ...\n\n    def other(self, x: U) -> U: ...\n\n")
        src.append(f"\ndef generic_fn{i}(a: T, b: list[U]) -> T: ...\n")
        if rng.random() < 0.5:
            # a generic class with attributes only (type variables converted outside any function) right before plain
            # functions, or as the very last declaration of the module
            holder = f"\nclass HolderOnly{i}(Generic[T, U]):\n    value: T\n    items: list[U] = []\n\n"
            if rng.random() < 0.5:
                src.append(holder + f"\ndef after_holder{i}(n: int) -> int: ...\n\n\nclass AfterHolder{i}:\n    def plain(self, n: int) -> int: ...\n")
            else:
                src.append(holder)
        m.extra += "".join(src)


def make_variants(rng, base: pg.Pkg, m: pg.Mod):
    """(variant name, package) pairs that differ from ``base`` outside the cone of ``m`` only."""
    co = cone(base, m)
    users = {x.qname for x in base.modules if m.qname in cone(base, x)}
    outside = [x for x in base.modules if x.qname not in co]
    removable = [x for x in outside if not any(x.qname in imports_of(y) for y in base.modules) and not any(r.module == x.qname for res in base.inits.values() for r in res)]
    variants = []
    # names used by M and the things it references: reused by hostile additions
    reuse_cls = [d.name for d in m.decls if isinstance(d, pg.Cls)][:3]
    for q in co:
        mod = next(x for x in base.modules if x.qname == q)
        reuse_cls += [d.name for d in mod.decls if isinstance(d, (pg.Cls, pg.En))][:2]
    reuse_fn = [d.name for d in m.decls if isinstance(d, pg.Fn)][:3]
    reuse_cls += [ln.split()[-1] for ln in m.imports if "extlib_not_installed" in ln]

    def add_module(name, pkgpath, hostile):
        p = copy.deepcopy(base)
        decls = []
        if hostile:
            for c in dict.fromkeys(reuse_cls):
                decls.append(pg.Cls(c, cattrs=[pg.Attr("marker_of_copy", "int", "1")], methods=[pg.Fn("other_method", [pg.Param("q", c)], c, role="inst")]))
            for f in dict.fromkeys(reuse_fn):
                decls.append(pg.Fn(f, [pg.Param("different", "str")], "str"))
        else:
            decls = [pg.Cls("FreshAddedClass", methods=[pg.Fn("fresh_method", role="inst")]), pg.Fn("fresh_added_function")]
        mod = pg.Mod(tuple(pkgpath), name, decls=decls)
        if hostile:
            # expressions of these classes put their short names into the package-wide alias table
            mod.extra = "".join(f"_inst_of_{c} = {c}()\n" for c in dict.fromkeys(reuse_cls)) + "\n\ndef _build_all():\n" + "".join(f"    v_{i} = {c}()\n" for i, c in enumerate(dict.fromkeys(reuse_cls))) + "    return None\n"
        p.modules.append(mod)
        return p

    variants.append(("add-unrelated-module", add_module("zz_added", ("pk",), False)))
    # a module that is enumerated (sorted order) directly before / after M, full of classes and TODO-rich functions
    for tag, nm in (("before", m.name[:-1] + chr(max(ord(m.name[-1]) - 1, 48)) + "zz"), ("after", m.name + "_zz")):
        if nm.isidentifier() and not any(y.pkg == m.pkg and y.name == nm for y in base.modules):
            p = copy.deepcopy(base)
            nb = pg.Mod(m.pkg, nm, imports=["from pathlib import PurePosixPath", "from typing import Generic, TypeVar"], extra='\nT = TypeVar("T")\nU = TypeVar("U")\n\n\nclass NeighbourBox(Generic[T, U]):\n    def put(self, a: T, b: U) -> T: ...\n', decls=[
                pg.Cls("NeighbourClass", methods=[pg.Fn("nb_method", [pg.Param("a", "PurePosixPath"), pg.Param("rest", "int", None, "va")], None, role="inst")]),
                pg.Fn("neighbour_fn", [pg.Param("a", "NeighbourClass"), pg.Param("b", "set[int]")], "tuple[int, str]"),
            ])
            p.modules.append(nb)
            variants.append((f"add-neighbour-module-{tag}", p))
    variants.append(("add-module-reusing-names", add_module("aa_reuse", ("pk",), True)))
    # ... and modules whose classes of those names are exception hierarchies (analysed before / after M)
    for nm_ in ("aa_errors", "zz_errors"):
        p = copy.deepcopy(base)
        decls = []
        base_names = [b for d in m.decls if isinstance(d, pg.Cls) for b in d.bases if b.isidentifier()]
        for c in dict.fromkeys([*base_names, *reuse_cls]):
            decls.append(pg.Cls(c, bases=["Exception"], methods=[pg.Fn("explain", [], "str", role="inst")]))
            decls.append(pg.Cls(f"Sub{c}Failure", bases=[c]))
        if decls:
            p.modules.append(pg.Mod(("pk",), nm_, decls=decls))
            variants.append((f"add-module-reusing-names-as-exceptions-{nm_[:2]}", p))
    variants.append(("add-module-reusing-names-in-new-package", add_module("reuse_mod", ("pk", "zz_newpkg"), True)))
    if removable:
        x = rng.choice(removable)
        p = copy.deepcopy(base)
        p.modules = [y for y in p.modules if y.qname != x.qname]
        if any(y.pkg == x.pkg for y in p.modules):  # keep every package non-empty
            variants.append(("remove-unrelated-module", p))
        p2 = copy.deepcopy(base)
        for y in p2.modules:
            if y.qname == x.qname:
                y.name = y.name + "_renamed"
        variants.append(("rename-unrelated-module", p2))
    if outside:
        x = rng.choice(outside)
        p = copy.deepcopy(base)
        for y in p.modules:
            if y.qname == x.qname:
                for c in dict.fromkeys(reuse_cls[:2]):
                    if not any(getattr(d, "name", None) == c for d in y.decls):
                        y.decls.append(pg.Cls(c, methods=[pg.Fn("edited_in", role="inst")]))
                y.decls.append(pg.Fn("edited_extra_function", [pg.Param("zz", "int")], "int"))
        variants.append(("edit-unrelated-module", p))
    return variants, users


COMMON_PARAMS = ["value", "other", "count"]


def add_documented_tails(rng, base: pg.Pkg, tag: str) -> pg.Mod:
    """Every module ends with a function whose NumPy-style docstring documents parameters / a result under names that
    an undocumented module reuses; that module starts with a UTF-8 byte order mark, so the docstring library does not
    load it while the type checker does.  Whatever is looked up before it must not reach its stub."""
    for k, y in enumerate(base.modules):
        doc = (
            f"Tail of {y.name}.\n\nParameters\n----------\n"
            + "".join(f"{p} : int\n    Tdoc{tag}x{k}{p} described in {y.name}.\n" for p in COMMON_PARAMS)
            + f"\nReturns\n-------\ntail_result_{k} : int\n    Tres{tag}x{k} result of {y.name}.\n"
        )
        # raw source behind everything else of the module: the documented function is the module's last declaration
        y.extra += f"\n\ndef tail_fn_{k}({', '.join(p + ': int' for p in COMMON_PARAMS)}) -> int:\n    {doc!r}\n    return 0\n"
    victim = pg.Mod(("pk",), f"unseen_mod_{rng.choice('amz')}", decls=[
        pg.Fn("first_unseen", [pg.Param(p, "int") for p in COMMON_PARAMS], "int"),
        pg.Cls("UnseenClass", methods=[pg.Fn("method_unseen", [pg.Param("value", "int"), pg.Param("other", "int")], "int", role="inst")]),
        pg.Fn("last_unseen", [pg.Param("count", "int")], "int"),
    ])
    base.modules.append(victim)
    base.bom_files = [*getattr(base, "bom_files", ()), victim.path]
    return victim


def permuted(rng, base: pg.Pkg, m: pg.Mod) -> pg.Pkg:
    p = copy.deepcopy(base)
    for y in p.modules:
        if y.qname == m.qname:
            rng.shuffle(y.decls)
    return p


def gen(tier: str, seed: int):
    rng = rng_for(seed, PID, "gen")
    gated = gated_features()
    cfg = c10.make_cfg(gated)
    cfg.cross_refs = False
    cfg.foreign = True
    cfg.reexport_forms = tuple(f for f in cfg.reexport_forms if f.split("-")[0] in ("name", "alias"))
    allowed = {c for c in c11.REF_CATEGORIES if f"ref:{c}" not in gated}
    n = 6 if tier == "quick" else 200
    groups = []
    for i in range(n):
        cfg.n_modules = (5, 9)
        base = pg.random_pkg(rng, cfg)
        pg.assign_cross_refs(rng, base, allowed, 0.5)
        c11.add_public_inheritance(rng, base)
        add_unresolvable_imports(rng, base)
        add_typevars(rng, base)
        public_mods = [m for m in base.modules if not any(pg.is_private_name(s) for s in (*m.pkg, m.name))]
        if not public_mods:
            continue
        targets = rng.sample(public_mods, min(len(public_mods), 2 if tier == "quick" else 3))
        forced = []
        if i % 2 == 0:
            targets = [add_documented_tails(rng, base, f"{i}"), *targets[:1]]
            forced = ["--docstyle", ["numpydoc", "numpydoc", "google"][(i // 2) % 3]]
        for m in targets:
            variants, _users = make_variants(rng, base, m)
            variants.append(("permute-declarations", permuted(rng, base, m)))
            if forced and m is targets[0]:
                # every OTHER module gets different documentation texts (the modules M uses are documented elsewhere in
                # their own stubs; M's stub shows only M's documentation)
                p2 = copy.deepcopy(base)
                for y in p2.modules:
                    if y.qname != m.qname:
                        y.extra = y.extra.replace("Tdoc", "Tedited").replace("Tres", "Tresedited")
                variants.append(("edit-documentation-of-all-other-modules", p2))
            groups.append((f"g{i}-{m.name}", base, m, variants, (["-nc"] if i % 2 else []) + (forced or noise_opts(seed, PID, i))))
    # one private base class (methods with Literal | None, foreign and package types) shown in public subclasses that
    # live in modules unrelated to each other: what is rendered for one of them must not depend on the others
    for j in range(1 if tier == "quick" else 6):
        base = pg.Pkg()
        shared = pg.Mod(("pk",), "shared_base", imports=["from typing import Literal, Optional", "from pathlib import Path"], decls=[
            pg.Cls("Marker"),
            pg.Cls("_Base", methods=[
                pg.Fn("inherited_mode", [pg.Param("mode", "Literal['fast'] | None", "None"), pg.Param("level", "Optional[Literal[3]]", "None")], "Literal['ok'] | None", role="inst"),
                pg.Fn("inherited_path", [pg.Param("p", "Path"), pg.Param("m", "Marker")], "Marker", role="inst"),
            ]),
        ])
        subs = []
        for nm_ in ("aa_first", "alpha", "beta", "zz_last"):
            subs.append(pg.Mod(("pk",), nm_, imports=["from pk.shared_base import _Base"], decls=[pg.Cls(nm_.title().replace("_", ""), bases=["_Base"], methods=[pg.Fn("own_method" if j % 2 == 0 else f"own_{nm_}", role="inst")])]))  # (every second group: the same own member names in all subclasses)
        base.modules += [shared, *subs]
        for m in subs[1:3]:
            variants = []
            for drop in (("aa_first",), ("beta", "zz_last") if m.name == "alpha" else ("alpha", "zz_last"), ("aa_first", "zz_last")):
                p = copy.deepcopy(base)
                p.modules = [y for y in p.modules if y.name not in drop]
                variants.append((f"remove-sibling-subclass-modules:{'+'.join(drop)}", p))
            groups.append((f"shared-base{j}-{m.name}", base, m, variants, [["-nc"], [], ["--docstyle", "numpydoc"]][j % 3]))
    # base classes whose module the package __init__ re-exports with a wildcard (or the class by name), subclassed in modules
    # that import them relatively / absolutely; the usual variants add modules that reuse the class names in expressions
    for j, (init_form, style) in enumerate([("star", "rel"), ("name", "rel"), ("star", "abs")][: 2 if tier == "quick" else 3]):
        base = pg.Pkg()
        shapes = pg.Mod(("pk",), "shapes", decls=[pg.Cls("Shape", methods=[pg.Fn("area", [], "float", role="inst")]), pg.Cls("Marker"), pg.Fn("make_shape", [], "Shape", body="return Shape()" if j == 2 else "...")])
        rnd = pg.Mod(("pk",), "round", imports=["from .shapes import Shape, Marker"], decls=[pg.Cls("Circle", bases=["Shape"], methods=[pg.Fn("radius", [pg.Param("m", "Marker")], "float", role="inst")]), pg.Fn("unit_circle", [pg.Param("s", "Shape")], "Circle")])
        sq = pg.Mod(("pk",), "square", imports=["from pk.shapes import Shape"], decls=[pg.Cls("Square", bases=["Shape"], methods=[pg.Fn("side", [], "float", role="inst")])])
        other = pg.Mod(("pk",), "unrelated", decls=[pg.Fn("nothing_to_see", [pg.Param("n", "int")], "int")])
        # ... and modules that get the base class without naming it in an import: through the module, through a wildcard
        oval = pg.Mod(("pk",), "oval", imports=["import pk.shapes as sh"], decls=[pg.Cls("Oval", bases=["sh.Shape"], methods=[pg.Fn("axes", [], "float", role="inst")])])
        star = pg.Mod(("pk",), "starred", imports=["from .shapes import *"], decls=[pg.Cls("Starred", bases=["Shape"], methods=[pg.Fn("points", [], "int", role="inst")])])
        base.modules += [shapes, rnd, sq, other, oval, star]
        base.inits[("pk",)] = [pg.Reexport("star", "pk.shapes", None, None, style)] if init_form == "star" else [pg.Reexport("name", "pk.shapes", "Shape", None, style)]
        for m in (rnd, sq, oval, star):
            variants, _users = make_variants(rng, base, m)
            groups.append((f"reexported-base{j}-{m.name}", base, m, variants, [[], ["-nc"], []][j]))
    return groups


def main(tier: str, seed: int) -> int:
    chk = Check(PID, tier, seed)
    groups = gen(tier, seed)
    batches = []
    index = []
    for gname, base, m, variants, opts in groups:
        batches.append([Case(cid=f"c18-{gname}-base", files=pg.render(base), opts=opts, reach=REACH, perturb=SORTED)])
        index.append((gname, "base"))
        for vname, p in variants:
            batches.append([Case(cid=f"c18-{gname}-{vname}", files=pg.render(p), opts=opts, reach=REACH, perturb=SORTED)])
            index.append((gname, vname))
    results = run_many(batches, steps="reach")
    recs_by = {}
    for (gname, vname), (batch, recs, mon, err) in zip(index, results, strict=True):
        if err:
            chk.runner_error(err)
            continue
        chk.note_run(recs[0], mon)
        recs_by[(gname, vname)] = (batch[0], recs[0])
    for gname, base, m, variants, _opts in groups:
        if (gname, "base") not in recs_by:
            continue
        bcase, brec = recs_by[(gname, "base")]
        if brec["outcome"] != "ok":
            chk.discarded["base-run-failed"] += 1
            continue
        bfiles = attributable(base, m, brec["tree"])
        if not bfiles:
            chk.discarded["module-has-no-stub"] += 1
            continue
        for vname, p in variants:
            if (gname, vname) not in recs_by:
                continue
            vcase, vrec = recs_by[(gname, vname)]
            if vrec["outcome"] != "ok":
                chk.discarded[f"variant-run-failed:{vname}"] += 1
                continue
            vm = next(y for y in p.modules if y.qname == m.qname)
            vfiles = attributable(p, vm, vrec["tree"])
            if vname != "permute-declarations":
                if vfiles != bfiles:
                    diff = {}
                    for k in sorted(set(bfiles) | set(vfiles)):
                        if bfiles.get(k) != vfiles.get(k):
                            a, b = (bfiles.get(k) or "").splitlines(), (vfiles.get(k) or "").splitlines()
                            diff[k] = {"only_base": [x for x in a if x not in b][:5], "only_variant": [x for x in b if x not in a][:5]}
                    chk.violation(Viol("stub-changes-with-unrelated-module", vname, {"module": m.qname, "diff": diff}), vcase, vrec)
                chk.case_ok(f"{vname}:{len(bfiles)}")
            else:
                viols = compare_permuted(m, vm, bfiles, vfiles)
                for v in viols:
                    chk.violation(v, vcase, vrec)
                chk.case_ok(f"{vname}:{len(m.decls)}")
        chk.sample({"module": m.qname, "files": sorted(bfiles), "variants": [v for v, _ in variants]}, limit=3)
    form_library_relations(chk, tier, seed)
    chk.assumptions = [
        "cone of M = M, the modules it imports from (transitively) and the __init__ files re-exporting its declarations",
        "unrelated modules may import M; they are outside M's cone",
    ]
    return chk.finish(
        rule="one case = one (module, variant package) pair compared with the base run; distinct = (variant kind, number of output files attributable to the module); all non-trivial",
        min_cases=40 if tier == "quick" else 800,
    )


def form_library_relations(chk: Check, tier: str, seed: int) -> None:
    """The same relations on modules composed from C01's library of declaration forms (every form: overloads,
    dataclasses, generics, docstrings of every style, decorators, ...): module M next to (a) nothing else, (b) another
    module, (c) COPIES of itself under other names analysed before and after it (every class / function / type variable
    name occurs again), and M with its blocks of declarations permuted."""
    from .. import snippets as sn
    from . import c01

    gated = gated_features()
    usable = [(f, src) for f, src in sn.SNIPPETS if f not in gated and f not in ("func:dunder-module-level", "module:all-and-dunder", "module:big-function", "module:name-collisions", "module:star-import-stdlib")]  # (blocks that re-bind names other blocks use are not freely permutable)
    rng = rng_for(seed, PID, "form-library")
    batches, index = [], []
    n = 4 if tier == "quick" else 60
    optsets = [[], ["--docstyle", "numpydoc"], ["-nc", "--docstyle", "google"], ["--docstyle", "rest", "-tsp", "docstring"]]
    for g in range(n):
        blocks = [c01.subst(src, 500 + g * 40 + k) + "\n\n" for k, (f, src) in enumerate(rng.sample(usable, 14))]
        other = [c01.subst(src, 900 + g * 40 + k) + "\n\n" for k, (f, src) in enumerate(rng.sample(usable, 10))]
        m_text = sn.PRELUDE + "".join(blocks)
        perm = list(blocks)
        rng.shuffle(perm)
        o_text = sn.PRELUDE + "".join(other)
        base = {"src/pk/__init__.py": "", "src/pk/mod_m.py": m_text, "src/pk/other_mod.py": o_text}
        variants = {
            "base": base,
            "alone": {k: v for k, v in base.items() if k != "src/pk/other_mod.py"},
            "copies-before-and-after": {**base, "src/pk/aa_copy.py": m_text, "src/pk/zz_copy.py": m_text, "src/pk/sub/__init__.py": "", "src/pk/sub/mod_m.py": m_text},
            "permute-blocks": {**base, "src/pk/mod_m.py": sn.PRELUDE + "".join(perm)},
        }
        opts = optsets[g % len(optsets)]
        for vname, files in variants.items():
            batches.append([Case(cid=f"c18-forms{g}-{vname}", files=files, opts=opts, reach=REACH, perturb=SORTED)])
            index.append((g, vname))
    results = run_many(batches, steps="reach")
    recs: dict = {}
    for (g, vname), (batch, rs, mon, err) in zip(index, results, strict=True):
        if err:
            chk.runner_error(err)
            continue
        chk.note_run(rs[0], mon)
        recs[(g, vname)] = (batch[0], rs[0])
    own = "pk/mod_m/mod_m.sdsstub"
    for g in range(n):
        if (g, "base") not in recs or recs[(g, "base")][1]["outcome"] != "ok":
            chk.discarded["base-run-failed"] += 1
            continue
        btree = recs[(g, "base")][1]["tree"]
        if own not in btree:
            chk.discarded["module-has-no-stub"] += 1
            continue
        for vname in ("alone", "copies-before-and-after", "permute-blocks"):
            if (g, vname) not in recs:
                continue
            vcase, vrec = recs[(g, vname)]
            if vrec["outcome"] != "ok":
                chk.discarded[f"variant-run-failed:{vname}"] += 1
                continue
            a, b = btree[own], vrec["tree"].get(own)
            if vname != "permute-blocks":
                if a != b:
                    al, bl = a.splitlines(), (b or "").splitlines()
                    chk.violation(Viol("stub-changes-with-unrelated-module", f"forms:{vname}", {"module": "pk.mod_m", "diff": {own: {"only_base": [x for x in al if x not in bl][:6], "only_variant": [x for x in bl if x not in al][:6]}}}), vcase, vrec)
                chk.case_ok(f"forms:{vname}")
            else:
                sa, sb = StubSet({own: a}), StubSet({own: b or ""})
                if own in sa.files and own in sb.files:
                    ma, mb = sa.files[own], sb.files[own]
                    if (ma.package, sorted(ma.imports)) != (mb.package, sorted(mb.imports)):
                        chk.violation(Viol("permutation-changes-header", "forms:permute-blocks", {"file": own, "base_imports": ma.imports, "variant_imports": mb.imports}), vcase, vrec)
                    ca = sorted(repr(c09.canon_decl(d, False)) for d in ma.decls)
                    cb = sorted(repr(c09.canon_decl(d, False)) for d in mb.decls)
                    if ca != cb:
                        only_a = [x for x in ca if x not in cb][:2]
                        only_b = [x for x in cb if x not in ca][:2]
                        chk.violation(Viol("permutation-changes-declarations", "forms:permute-blocks", {"file": own, "only_base": [x[:500] for x in only_a], "only_variant": [x[:500] for x in only_b]}), vcase, vrec)
                else:
                    chk.discarded["unparsable-stub:forms"] += 1
                chk.case_ok("forms:permute-blocks")


def compare_permuted(m: pg.Mod, vm: pg.Mod, bfiles: dict, vfiles: dict) -> list[Viol]:
    viols = []
    if set(bfiles) != set(vfiles):
        return [Viol("permutation-changes-file-set", "permute-declarations", {"module": m.qname, "base": sorted(bfiles), "variant": sorted(vfiles)})]
    for k in bfiles:
        sa, sb = StubSet({k: bfiles[k]}), StubSet({k: vfiles[k]})
        if k not in sa.files or k not in sb.files:
            continue
        ma, mb = sa.files[k], sb.files[k]
        if (ma.package, ma.py_module, sorted(ma.imports)) != (mb.package, mb.py_module, sorted(mb.imports)):
            viols.append(Viol("permutation-changes-header", "permute-declarations", {"file": k, "base_imports": ma.imports, "variant_imports": mb.imports}))
        ca = sorted(repr(c09.canon_decl(d, False)) for d in ma.decls)
        cb = sorted(repr(c09.canon_decl(d, False)) for d in mb.decls)
        if ca != cb:
            da = [x for x in ca if x not in cb][:2]
            db = [x for x in cb if x not in ca][:2]
            viols.append(Viol("permutation-changes-declarations", "permute-declarations", {"file": k, "only_base": [x[:300] for x in da], "only_variant": [x[:300] for x in db]}))
        # relative order within a kind follows the source
        for kind, typ in (("fun", pg.Fn), ("class", pg.Cls), ("enum", pg.En)):
            src_order = [d.name for d in vm.decls if isinstance(d, typ)]
            stub_order = [d.pyname for d in mb.decls if d.kind == kind]
            filt = [n for n in src_order if n in stub_order]
            if filt != [n for n in stub_order if n in src_order]:
                viols.append(Viol("order-within-kind", kind, {"file": k, "source": filt, "stub": stub_order}))
    return viols


def replay(path: str) -> int:
    import json

    with open(path, encoding="utf-8") as fh:
        rp = json.load(fh)
    print(json.dumps(rp["detail"], indent=1)[:4000])
    return 0
