"""C04 -- private declarations never leak into stubs; the API JSON marks exactly those as non-public.

Workload: underscore placement at every level (package, module, class, nested class, method, attribute) x re-export
forms (name, alias, star, module alias), both naming settings.  Oracle: privacy_ref on the ground-truth model; no stub
declaration (and no stub text at all) may carry the unique name token of a private element; is_public in the JSON
equals the reference for classes, functions and attributes.
"""

from __future__ import annotations

from .. import pkggen as pg
from .. import structure as st
from ..core import Check, Viol, drive, gated_features, generic_replay, rng_for, noise_opts
from ..run import Case
from ..stubs import StubSet

PID = "C04"
REACH = [
    "is_internal",
    "MyPyAstVisitor._is_public",
    "MyPyAstVisitor._check_publicity_in_reexports",
    "MyPyAstVisitor._get_reexported_by",
    "MyPyAstVisitor._add_reexports",
    "StubsStringGenerator._create_class_method_string",
    "StubsStringGenerator._create_class_attribute_string",
]


def cfg_for(gated: set) -> pg.GenCfg:
    forms = pg.ALL_REEXPORT_FORMS
    cfg = pg.GenCfg()
    cfg.twins = True
    cfg.private_name_clashes = True
    cfg.private_bases = True  # private base classes (with nested public-named classes that have private members) behind public classes
    cfg.reexport_forms = tuple(f for f in forms if f"reexport:{f}" not in gated)
    cfg.p_private_decl = 0.4
    cfg.p_private_mod = 0.35
    cfg.p_private_pkg = 0.3
    cfg.cross_refs = False  # references are not leaks; keeping them out makes the text search sound
    return cfg


def gen(tier: str, seed: int) -> list[Case]:
    rng = rng_for(seed, PID, "gen")
    cfg = cfg_for(gated_features())
    n = 24 if tier == "quick" else 1600
    cases = []
    for i in range(n):
        pkg = pg.random_pkg(rng, cfg)
        opts = (["-nc"] if i % 2 == 1 else []) + noise_opts(seed, PID, i)
        cases.append(Case(cid=f"c04-{i}", files=pg.render(pkg), opts=opts, meta={"pkg": pkg}, reach=REACH))
    # packages whose public signatures USE classes that are not public (private name, private module, private package):
    # a reference is no leak, so these are judged on parsed declarations only (no search in the stub text)
    cfg2 = cfg_for(gated_features())
    cfg2.cross_refs = True
    cfg2.private_refs = True
    cfg2.foreign = True
    rng2 = rng_for(seed, PID, "with-references")
    for i in range(n // 3):
        pkg = pg.random_pkg(rng2, cfg2)
        opts = (["-nc"] if i % 2 == 1 else []) + noise_opts(seed, PID, f"r{i}")
        cases.append(Case(cid=f"c04-r{i}", files=pg.render(pkg), opts=opts, meta={"pkg": pkg, "declarations_only": True}, reach=REACH))
    for name, pkg in scenarios().items():
        for nc in (False, True):
            cases.append(Case(cid=f"c04-scn-{name}-{int(nc)}", files=pg.render(pkg), opts=["-nc"] if nc else [], meta={"pkg": pkg}, reach=REACH))
    # packages without a model (every declaration form of C01's library, its package scenarios): no class, function or
    # attribute whose Python name starts with an underscore (dunder names aside) may be DECLARED in any stub - a name that
    # a package __init__ re-exports under a public alias is declared under that alias
    from ..scenarios import PACKAGE_SCENARIOS
    from . import c01

    for i in range(3 if tier == "quick" else 60):
        ks = c01.kitchen_sink(rng_for(seed, PID, "kitchen-sink", i), gated_features(), 150 + i)
        cases.append(Case(cid=f"c04-kitchen-{i}", files=ks, opts=[[], ["-nc"], ["--docstyle", "numpydoc"], ["-nc", "--docstyle", "rest"]][i % 4], meta={}, reach=REACH))
    for k, (feat, sfiles, optsets) in enumerate(PACKAGE_SCENARIOS):
        if feat in gated_features() or feat == "init:forms":  # (init:forms re-exports a private function under a public alias AND a private alias)
            continue
        files = {"src/" + fk: ({"hex": fv.hex()} if isinstance(fv, bytes) else fv) for fk, fv in sfiles.items()}
        cases.append(Case(cid=f"c04-scenario-{feat}", files=files, opts=list(optsets[(k + seed) % len(optsets)]), meta={}, reach=REACH))
    # the private name is the FIRST segment of the module path: a flat source directory (no package) with a private module,
    # and a package whose own directory name is private
    body = "class Shim:\n    level: int = 1\n\n    def patch_it(self, n: int) -> int: ...\n\n\ndef helper_fn(x: int) -> int: ...\n"
    flat = {"src/flat_dir/api_mod.py": "def public_fn(x: int) -> int: ...\n", "src/flat_dir/_compat.py": body}
    vend = {"src/_vendor_pk/__init__.py": "", "src/_vendor_pk/core.py": body, "src/_vendor_pk/sub/__init__.py": "", "src/_vendor_pk/sub/deep.py": body}
    for name, files, src in (("flat-private-module", flat, "src/flat_dir"), ("private-root-package", vend, "src/_vendor_pk")):
        for nc in (False, True):
            c = Case(cid=f"c04-first-segment-{name}-{int(nc)}", files=files, opts=["-nc"] if nc else [], meta={"no_reexports": True}, reach=REACH)
            c.src = src
            cases.append(c)
    return cases


def scenarios() -> dict:
    """Deterministic layouts aimed at the name matching of the re-export logic (run on every seed)."""
    out = {}
    # private modules of the same name in two packages; only the one in the parent package is re-exported
    # (by alias, by name and as a module alias): nothing of the other one may become public
    pkg = pg.Pkg()
    a = pg.Mod(("pk",), "_implmod", decls=[pg.Fn("_makething", [pg.Param("shownparam", "int")], "int"), pg.Cls("ShownThing", methods=[pg.Fn("shownmethod", role="inst")])])
    b = pg.Mod(("pk", "subpart"), "_implmod", decls=[pg.Fn("_makething", [pg.Param("hiddenparam", "int")], "int"), pg.Cls("ShownThing", methods=[pg.Fn("hiddenmethod", role="inst")]), pg.Fn("hiddenhelper")])
    c = pg.Mod(("pk",), "_toolsmod", decls=[pg.Fn("showntool"), pg.Cls("ShownTool", methods=[pg.Fn("run", role="inst")])])
    d = pg.Mod(("pk", "subpart"), "_toolsmod", decls=[pg.Fn("hiddentool"), pg.Cls("HiddenTool", methods=[pg.Fn("run", role="inst")])])
    e = pg.Mod(("pk", "subpart"), "plainmod", decls=[pg.Fn("plainfunction")])
    pkg.modules += [a, b, c, d, e]
    pkg.inits[("pk",)] = [pg.Reexport("name", "pk._implmod", "_makething", "makething", "rel"), pg.Reexport("name", "pk._implmod", "ShownThing", None, "rel"), pg.Reexport("modalias", "pk._toolsmod", None, "tools", "rel")]
    out["same-named-private-modules"] = pkg
    return out


def make_judge(chk: Check):
    def judge(case: Case, rec: dict, probe=None) -> list[Viol]:
        pkg = case.meta.get("pkg")
        ss = StubSet(rec["tree"])
        for e in ss.errors.values():
            chk.discarded[f"unparsable-stub:{e.rule}"] += 1
        if pkg is None:
            viols = []
            for rel, _m, d in ss.all_decls():
                inside_enum = d.kind in ("enum", "variant") or (d.owner is not None and d.owner.kind == "enum")
                placeholder = d.kind == "class" and d.params is None and not d.members  # bodyless 'class X' written for a class of another library that a signature uses
                if d.kind in ("class", "fun", "attr") and not inside_enum and not placeholder:
                    nm = d.pyname
                    if nm.startswith("_") and not (nm.startswith("__") and nm.endswith("__")):
                        viols.append(Viol("private-name-declared", f"model-free:{d.kind}", {"file": rel, "declaration": d.path()}))
                    chk.case_ok(f"model-free:{d.kind}", ident=(case.cid, rel, d.path()))
            # packages without any re-export: no stub announces a Python module path with a private segment; stubs
            # that hold nothing but enums are the recorded finding KF-C04-private-enum
            for rel, m in ss.files.items():
                if not case.meta.get("no_reexports"):
                    break  # (re-exports by the __init__ of a private package are not judged: the statement allows both readings)
                segs = m.py_module.split(".")
                if any(x.startswith("_") for x in segs) and any(d.kind != "enum" for d in m.decls):
                    viols.append(Viol("private-module-has-stub", "model-free:module", {"file": rel, "python_module": m.py_module, "declarations": [d.pyname for d in m.decls][:5]}))
                chk.case_ok("model-free:module-path")
            if case.meta.get("no_reexports"):
                api = ss.api() or {}
                for key in ("classes", "functions", "attributes"):
                    for e in api.get(key, []):
                        if any(x.startswith("_") for x in e["id"].split("/")) and e.get("is_public"):
                            viols.append(Viol("json-is-public", f"model-free:{key}", {"id": e["id"], "json": True, "expected": False}))
                        chk.case_ok(f"model-free:json:{key}")
            return viols
        pubs = pg.publicity(pkg)
        viols = st.judge_privacy(chk, pkg, ss, pubs, ss.api(), text_search=not case.meta.get("declarations_only"))
        npriv = sum(1 for g in pg.walk(pkg) if not pubs[g.id].public)
        chk.sample({"case": case.cid, "private_declarations": npriv, "inits": {".".join(k): [pg.render_reexport(k, r) for r in v] for k, v in list(pkg.inits.items())[:3]}}, limit=3)
        return viols

    return judge


def main(tier: str, seed: int) -> int:
    chk = Check(PID, tier, seed)
    cases = gen(tier, seed)
    judge = make_judge(chk)
    drive(chk, cases, judge, per_proc=3)
    from .c03 import build_probe

    chk.run_probes(lambda c, r, probe=None: judge(c, r), build_case=build_probe)
    chk.extra["gated_features"] = sorted(f for f in gated_features() if f.split(":")[0] in ("reexport", "enum"))
    chk.assumptions = [
        "private classes are never referenced as types and have no public subclasses in this workload (references/inlining are C11/C17's subject), so a private element's name token must be absent from all stub text",
        "a re-export inside a private package does not publish by itself; a re-export under a private alias does not publish",
    ]
    return chk.finish(
        rule="one case = one private declaration searched in all stubs, or one is_public field compared with the reference; distinct = (kind, reason it is private / way it is public); all non-trivial",
        min_cases=800 if tier == "quick" else 10000,
    )


def replay(path: str) -> int:
    return generic_replay(path, gen, make_judge)
