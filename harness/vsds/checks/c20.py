"""C20 -- TODO markers flag exactly the declarations that need manual attention.

Workload: declarations with every subset of the flagged features that can co-occur, neighbours with and without
features in every order (functions, methods, classes with constructors, attributes, properties).  Oracle: todo_ref maps
ground-truth features to the listed marker texts; the ``// TODO`` lines the recogniser finds between the end of the
previous declaration and a declaration's keyword must be exactly the expected set; no marker may dangle.
"""

from __future__ import annotations

from ..core import Check, Viol, drive, gated_features, generic_replay, rng_for, noise_opts
from ..run import Case
from ..stubs import StubSet

PID = "C20"
REACH = ["StubsStringGenerator._create_todo_msg", "StubsStringGenerator.__call__", "StubsStringGenerator._create_class_string",
         "StubsStringGenerator._create_class_attribute_string", "StubsStringGenerator._create_function_string", "StubsStringGenerator._create_property_function_string"]

MARKERS = {
    "tuple": "Safe-DS does not support tuple types.",
    "set": "Safe-DS does not support set types.",
    "list-multi": "List type has to many type arguments.",
    "set-multi": "Set type has to many type arguments.",
    "opt-pos-only": "Safe-DS does not support optional but position only parameter assignments.",
    "req-name-only": "Safe-DS does not support required but name only parameter assignments.",
    "multiple-inheritance": "Safe-DS does not support multiple inheritance.",
    "variadic": "Safe-DS does not support variadic parameters.",
    "class-method": "Safe-DS does not support class methods.",
    "param-untyped": "Some parameter have no type information.",
    "attr-untyped": "Attribute has no type information.",
    "result-missing": "Result type information missing.",
    "unknown-value": "Unknown value - Value could not be parsed.",
}
BY_TEXT = {"TODO " + v: k for k, v in MARKERS.items()}
OUTSIDE = {"TODO An internal class must not be used as a type in a public class.", "TODO Unknown type - Type could not be parsed."}

TYPES = {
    "int": ("int", set()),
    "str": ("str", set()),
    "opt": ("int | None", set()),
    "list": ("list[str]", set()),
    "dict": ("dict[str, int]", set()),
    "tuple": ("tuple[int, str]", {"tuple"}),
    "nested-tuple": ("list[tuple[int, str]]", {"tuple"}),
    "set": ("set[int]", {"set"}),
    "opt-set": ("set[str] | None", {"set"}),
    "list-multi": ("list[int, str]", {"list-multi"}),
    "set-multi": ("set[int, str]", {"set", "set-multi"}),
    "tuple-of-set": ("tuple[set[int], str]", {"tuple", "set"}),
}


def rand_params(rng, gated: set, allow_untyped=True):
    """Returns (list of (source, marker set))."""
    n = rng.randint(0, 5)
    kinds = sorted(rng.choices(["po", "pk", "pk", "va", "ko", "vk"], k=n), key=["po", "pk", "va", "ko", "vk"].index)
    # at most one *args / **kwargs
    out_kinds = []
    for k in kinds:
        if k in ("va", "vk") and k in out_kinds:
            continue
        out_kinds.append(k)
    params = []
    need_default = False
    for i, k in enumerate(out_kinds):
        name = f"p{i}"
        marks = set()
        tkey = rng.choice(list(TYPES))
        if k in ("va", "vk") and tkey in ("list-multi", "set-multi"):
            tkey = "int"
        anno, tm = TYPES[tkey]
        untyped = allow_untyped and rng.random() < 0.2
        default = None
        if k in ("po", "pk"):
            if need_default or rng.random() < 0.35:
                need_default = True
                default = rng.choice(["lit", "none", "unknown"] if "default:unknown" not in gated else ["lit", "none"])
        elif k == "ko":
            if rng.random() < 0.5:
                default = rng.choice(["lit", "none"])
        if tkey in ("list-multi", "set-multi"):
            default = None  # "list[int, str] | None" is no longer the illegal multi-argument form once it sits in a union
            if k in ("po", "pk") and need_default:
                tkey = "int"
                anno, tm = TYPES[tkey]
                default = "lit"
        unknown_untyped = False
        if default == "unknown":
            untyped = False
            tkey, (anno, tm) = "int", TYPES["int"]
            # ... or no hint at all and a default that is an operator applied to something that is no literal: the parameter is
            # written with the unknown type and the unknown value, both flagged
            unknown_untyped = rng.random() < 0.4
        if default in ("lit", "none") and tkey not in ("int", "opt"):
            # a literal default must fit the annotation; containers get None
            default = "none"
            anno = anno if "None" in anno else f"{anno} | None"
        src_default = {"lit": "3", "none": "None", "unknown": "not True", None: None}[default]
        if unknown_untyped:
            src_default = rng.choice(["-_untyped_source()", "-len('ab')", "not _untyped_source()", "-_untyped_source().real"])
            anno, tm = None, set()
        if default == "lit" and tkey == "opt":
            src_default = "3"
        if untyped:
            anno = None
            tm = set()
            if default is None:
                marks.add("param-untyped")
        marks |= tm if not untyped else set()
        if k in ("va", "vk"):
            marks.add("variadic")
        if k == "po" and default is not None:
            marks.add("opt-pos-only")
        if k == "ko" and default is None:
            marks.add("req-name-only")
        if default == "unknown":
            marks.add("unknown-value")
        s = {"va": "*", "vk": "**"}.get(k, "") + name
        if anno:
            s += f": {anno}"
        if src_default is not None:
            s += f" = {src_default}"
        params.append((k, s, marks))
    # render with / and *
    parts = []
    ks = [p[0] for p in params]
    for i, (k, s, _m) in enumerate(params):
        if k == "ko" and (i == 0 or ks[i - 1] not in ("va", "ko")):
            parts.append("*")
        parts.append(s)
        if k == "po" and (i + 1 == len(params) or ks[i + 1] != "po"):
            parts.append("/")
    marks = set().union(*[m for _k, _s, m in params]) if params else set()
    return parts, marks


def rand_function(rng, gated, name: str, role: str):
    parts, marks = rand_params(rng, gated)
    ret = rng.choice(["int", "none", "missing", "tuple", "nested-tuple", "set", "list"])
    if role == "prop":
        ret = rng.choice(["int", "set", "list"])
        parts, marks = [], set()
    ret_src = {"int": " -> int", "none": " -> None", "missing": "", "tuple": " -> tuple[int, str]", "nested-tuple": " -> list[tuple[int, str]]", "set": " -> set[int]", "list": " -> list[int]"}[ret]
    marks |= {"missing": {"result-missing"}, "nested-tuple": {"tuple"}, "set": {"set"}}.get(ret, set())
    recv = {"inst": ["self"], "prop": ["self"], "class": ["cls"], "static": [], "func": []}[role]
    deco = {"static": "@staticmethod\n", "class": "@classmethod\n", "prop": "@property\n"}.get(role, "")
    if role == "class":
        marks.add("class-method")
    src = f"{deco}def {name}({', '.join(recv + parts)}){ret_src}: ...\n"
    return src, marks


def indent(src: str, n: int = 4) -> str:
    return "".join((" " * n + ln if ln.strip() else ln) for ln in src.splitlines(True))


# invariant type variables with an upper bound: what the class header shows of the bound decides the markers of the class
# (the tool writes an invariant type parameter without its bound: nothing flagged is shown, in the header or in the methods)
INV_BOUND_MARKS = {"TvInvPair": set(), "TvInvSet": set(), "TvInvMulti": set()}


def build_module(rng, gated: set, idx: int, n_decls: int):
    lines = ["from __future__ import annotations\n\nfrom typing import Generic, TypeVar\n\n"
             'TvPair = TypeVar("TvPair", bound=tuple[int, str], covariant=True)\nTvSet = TypeVar("TvSet", bound=set[int], contravariant=True)\n'
             'TvPlain = TypeVar("TvPlain")\nTvChoice = TypeVar("TvChoice", set[int], list[int])\nTvBound = TypeVar("TvBound", bound=int, covariant=True)\n'
             'TvInvPair = TypeVar("TvInvPair", bound=tuple[int, str])\nTvInvSet = TypeVar("TvInvSet", bound=set[int])\nTvInvMulti = TypeVar("TvInvMulti", bound=list[int, str])\n'
             "\n\ndef _untyped_source():\n    ...\n\n\nclass Base0:\n    pass\n\n\nclass Base1:\n    pass\n\n\nclass Base2:\n    pass\n\n\n"
             "class _Mix:\n    def mixed_in(self, a: int) -> int: ...\n\n    def mixed_untyped(self, b): ...\n\n\n"]
    gt = {}  # declaration path -> expected marker ids
    for j in range(n_decls):
        kind = rng.choice(["func", "func", "class", "class"])
        if rng.random() < 0.15:
            # a private function / class full of flagged features between the public ones: not emitted, no marker of it anywhere
            psrc, _ = rand_function(rng, gated, f"_hidden_fn{idx}_{j}", "func")
            lines.append(psrc + "\n\n" if rng.random() < 0.5 else f"class _Hidden{idx}x{j}(Base0, Base1):\n    pair: tuple[int, str]\n    bag = _untyped_source()\n\n    def go(self, a, *rest: set[int]): ...\n\n\n")
        if kind == "func":
            name = f"fn{idx}_{j}"
            src, marks = rand_function(rng, gated, name, "func")
            lines.append(src + "\n\n")
            gt[name] = marks
        else:
            cname = f"Cl{idx}x{j}"
            nb = rng.choice([0, 0, 1, 2, 3])
            bases = [f"Base{k}" for k in range(nb)]
            cmarks = set()
            if nb > 1:
                cmarks.add("multiple-inheritance")
            if rng.random() < 0.3:
                # a private base at any place of the list: its members are shown in this class with their OWN markers
                bases.insert(rng.randint(0, len(bases)), "_Mix")
                gt[f"{cname}/mixed_in"] = set()
                gt[f"{cname}/mixed_untyped"] = {"param-untyped", "result-missing"}
            # class-level type parameters: flagged types in a bound / in value constraints belong to the class header
            gen = rng.choice([None, None, None, ("TvPair", {"tuple"}), ("TvSet", {"set"}), ("TvPlain", set()), ("TvChoice", {"set"}), ("TvBound", set()),
                              ("TvInvPair", INV_BOUND_MARKS["TvInvPair"]), ("TvInvSet", INV_BOUND_MARKS["TvInvSet"]), ("TvInvMulti", INV_BOUND_MARKS["TvInvMulti"])])
            if gen is not None:
                bases.append(f"Generic[{gen[0]}]")
                cmarks |= gen[1]
            body = []
            if gen is not None and gen[0] in (*INV_BOUND_MARKS, "TvPlain") and rng.random() < 0.8:
                # methods that take / give the class's own type variable: the variable is declared by the class, whatever its
                # bound contains is the class header's matter
                body.append(f"def takes_tv{j}(self, item: {gen[0]}, n: int = 0) -> None: ...\n\ndef gives_tv{j}(self) -> {gen[0]}: ...\n\n")
                gt[f"{cname}/takes_tv{j}"] = set()
                gt[f"{cname}/gives_tv{j}"] = set()
            # class attributes
            for a in range(rng.randint(0, 3)):
                an = f"ca{j}_{a}"
                choice = rng.choice(["typed", "typed", "untyped", "literal"])
                if rng.random() < 0.3:
                    # a private attribute with a flagged type (or none) in front of the public one: it is not emitted and
                    # must not leave its markers to the next declaration
                    body.append(rng.choice([f"_p{an}: tuple[int, str]\n", f"_p{an}: set[str] = set()\n", f"_p{an}: list[int, str]\n", f"_p{an} = _untyped_source()\n", f"_p{an}: dict[str, tuple[int, set[int]]]\n"]))
                if choice == "typed":
                    tkey = rng.choice(list(TYPES))
                    anno, tm = TYPES[tkey]
                    body.append(f"{an}: {anno}\n")
                    gt[f"{cname}/{an}"] = set(tm)
                elif choice == "untyped":
                    body.append(f"{an} = _untyped_source()\n")
                    gt[f"{cname}/{an}"] = {"attr-untyped"}
                else:
                    body.append(f"{an} = 5\n")
                    gt[f"{cname}/{an}"] = set()
            # constructor
            if rng.random() < 0.7:
                parts, pm = rand_params(rng, gated)
                cmarks |= pm
                ia = []
                for a in range(rng.randint(0, 2)):
                    an = f"ia{j}_{a}"
                    choice = rng.choice(["typed", "untyped"])
                    if rng.random() < 0.3:
                        ia.append(rng.choice([f"self._p{an}: tuple[int, int] = _untyped_source()", f"self._p{an}: set[str] = set()", f"self._p{an} = _untyped_source()", f"self._p{an}: list[int, str] = []"]))
                    if choice == "typed":
                        tkey = rng.choice(list(TYPES))
                        anno, tm = TYPES[tkey]
                        ia.append(f"self.{an}: {anno} = _untyped_source()")
                        gt[f"{cname}/{an}"] = set(tm)
                    else:
                        ia.append(f"self.{an} = _untyped_source()")
                        gt[f"{cname}/{an}"] = {"attr-untyped"}
                body.append(f"\ndef __init__({', '.join(['self'] + parts)}) -> None:\n" + ("".join(f"    {x}\n" for x in ia) if ia else "    pass\n"))
            # methods / properties
            if rng.random() < 0.3:
                # private attributes as the LAST attributes of the class (the next declaration is a method, a nested class or nothing)
                body.append(rng.choice([f"_last{j}: tuple[int, str]\n", f"_last{j}: set[int] = set()\n", f"_last{j} = _untyped_source()\n"]))
            for mth in range(rng.randint(0, 3)):
                role = rng.choice(["inst", "inst", "static", "class", "prop"])
                mn = f"me{j}_{mth}"
                if rng.random() < 0.2:
                    psrc, _ = rand_function(rng, gated, f"_pm{j}_{mth}", rng.choice(["inst", "static", "class"]))
                    body.append("\n" + psrc)
                src, marks = rand_function(rng, gated, mn, role)
                body.append("\n" + src)
                gt[f"{cname}/{mn}"] = marks
            if not body:
                body.append("pass\n")
            lines.append(f"class {cname}{'(' + ', '.join(bases) + ')' if bases else ''}:\n" + indent("".join(body)) + "\n\n")
            gt[cname] = cmarks
    return "".join(lines), gt


def gen(tier: str, seed: int) -> list[Case]:
    rng = rng_for(seed, PID, "gen")
    gated = gated_features()
    n = 8 if tier == "quick" else 500
    cases = []
    for i in range(n):
        files = {"src/pk/__init__.py": ""}
        gts = {}
        for mi in range(3):
            text, gt = build_module(rng, gated, i * 10 + mi, 40)
            files[f"src/pk/mod{mi}.py"] = text
            gts[f"pk.mod{mi}"] = gt
        cases.append(Case(cid=f"c20-{i}", files=files, opts=(["-nc"] if i % 2 else []) + noise_opts(seed, PID, i), meta={"gt": gts}, reach=REACH))
    # markers for missing type information under the structured docstring styles: documented declarations next to
    # undocumented, un-annotated ones with the same parameter names - in a module the docstring library loads and in one
    # it cannot load (UTF-8 byte order mark); type information of one declaration must not silence the marker of another
    docs = {
        "numpydoc": 'Donor.\n\n    Parameters\n    ----------\n    value : int\n        V.\n    factor : float\n        F.\n\n    Returns\n    -------\n    converted : float\n        R.\n    ',
        "google": 'Donor.\n\n    Args:\n        value (int): V.\n        factor (float): F.\n\n    Returns:\n        float: R.\n    ',
        "rest": 'Donor.\n\n    :param value: V.\n    :type value: int\n    :param factor: F.\n    :type factor: float\n    :returns: R.\n    :rtype: float\n    ',
    }
    bare_docs = {
        "numpydoc": 'Bare.\n\n    Parameters\n    ----------\n    items : set\n        I.\n    pairs : tuple\n        P.\n    plain : int\n        Q.\n    ',
        "google": 'Bare.\n\n    Args:\n        items (set): I.\n        pairs (tuple): P.\n        plain (int): Q.\n    ',
        "rest": 'Bare.\n\n    :param items: I.\n    :type items: set\n    :param pairs: P.\n    :type pairs: tuple\n    :param plain: Q.\n    :type plain: int\n    ',
    }
    bare = "def rescale(value, factor):\n    ...\n\n\ndef shift(value, factor=2):\n    ...\n\n\nclass Legacy:\n    def scale(self, value, factor):\n        ...\n"
    bare_gt = {"rescale": {"param-untyped", "result-missing"}, "shift": {"param-untyped", "result-missing"}, "Legacy": set(), "Legacy/scale": {"param-untyped", "result-missing"}}
    for style, doc in docs.items():
        donor = f'def donor(value, factor):\n    """{doc}"""\n    ...\n'
        files = {
            "src/pk/__init__.py": "",
            "src/pk/a_documented.py": bare + "\n\n" + donor,  # the documented function is the last thing looked up here
            "src/pk/b_legacy_root.py": {"hex": (b"\xef\xbb\xbf" + bare.encode()).hex()},
            "src/pk/legacy/__init__.py": "",
            "src/pk/legacy/b_legacy.py": {"hex": (b"\xef\xbb\xbf" + bare.encode()).hex()},
            "src/pk/z_last.py": bare,
            # container types without arguments that only the docstring gives (each parameter alone in its function)
            "src/pk/bare_types.py": f'def only_set(items):\n    """{bare_docs[style]}"""\n    ...\n\n\ndef only_tuple(pairs):\n    """{bare_docs[style]}"""\n    ...\n\n\ndef only_plain(plain):\n    """{bare_docs[style]}"""\n    ...\n',
        }
        gts = {"pk.a_documented": dict(bare_gt), "pk.b_legacy_root": dict(bare_gt), "pk.legacy.b_legacy": dict(bare_gt), "pk.z_last": dict(bare_gt),
               "pk.bare_types": {"only_set": {"set", "result-missing"}, "only_tuple": {"tuple", "result-missing"}, "only_plain": {"result-missing"}}}
        for nc in (False, True):
            cases.append(Case(cid=f"c20-doc-{style}-{int(nc)}", files=files, opts=["--docstyle", style] + (["-nc"] if nc else []), meta={"gt": gts}, reach=REACH))
    # packages without ground truth (every declaration form of C01's library): no marker may be left before a closing
    # brace, at the end of a module or in its header, none repeated on one declaration, every marker a known text
    from . import c01

    for i in range(3 if tier == "quick" else 60):
        ks = c01.kitchen_sink(rng_for(seed, PID, "kitchen-sink", i), gated, 190 + i)
        cases.append(Case(cid=f"c20-kitchen-{i}", files=ks, opts=[[], ["-nc", "--docstyle", "numpydoc"], ["--docstyle", "google", "-tsp", "docstring"], ["-nc"]][i % 4], meta={"gt": {}, "structure_only": True}, reach=REACH))
    return cases


def make_judge(chk: Check):
    def judge(case: Case, rec: dict, probe=None) -> list[Viol]:
        viols = []
        ss = StubSet(rec["tree"])
        for e in ss.errors.values():
            chk.discarded[f"unparsable-stub:{e.rule}"] += 1
        for rel, m in ss.files.items():
            gt = case.meta["gt"].get(m.py_module)
            if gt is None and not case.meta.get("structure_only"):
                continue
            gt = gt or {}
            if m.dangling and any(k == "line" for k, _t, _l in m.dangling):
                viols.append(Viol("marker-on-no-declaration", "end-of-module", {"file": rel, "comments": [t for _k, t, _l in m.dangling]}))
            hdr = [t for k, t, _l in m.header_comments if k == "line"]
            if hdr:
                viols.append(Viol("marker-on-no-declaration", "module-header", {"file": rel, "comments": hdr}))
            for d in m.walk():
                if d.dangling and any(k == "line" for k, _t, _l in d.dangling):
                    viols.append(Viol("marker-on-no-declaration", "end-of-class-body", {"file": rel, "class": d.path(), "comments": [t for _k, t, _l in d.dangling]}))
                exp = gt.get(d.path())
                if exp is None:
                    if case.meta.get("structure_only"):
                        # no ground truth: markers must still be known texts and not be repeated on one declaration
                        unknown = [t for t in d.todos if t not in BY_TEXT and t not in OUTSIDE]
                        if unknown:
                            viols.append(Viol("unknown-marker-text", "model-free", {"file": rel, "decl": d.path(), "texts": unknown}))
                        if len(d.todos) != len(set(d.todos)):
                            viols.append(Viol("marker-repeated", "model-free", {"file": rel, "decl": d.path(), "texts": d.todos}))
                        chk.case_ok("model-free:" + d.kind, ident=(case.cid, rel, d.path()))
                    elif d.todos and d.pyname not in ("Base0", "Base1", "Base2"):
                        chk.discarded["declaration-without-ground-truth"] += 1
                    continue
                got_txt = d.todos
                got = set()
                unknown = []
                for t in got_txt:
                    if t in BY_TEXT:
                        got.add(BY_TEXT[t])
                    elif t not in OUTSIDE:
                        unknown.append(t)
                kindlabel = {"fun": "function" if d.owner is None else "method", "class": "class", "attr": "attribute"}.get(d.kind, d.kind)
                if unknown:
                    viols.append(Viol("unknown-marker-text", kindlabel, {"file": rel, "decl": d.path(), "texts": unknown}))
                if len(got_txt) != len(set(got_txt)):
                    viols.append(Viol("marker-repeated", kindlabel, {"file": rel, "decl": d.path(), "texts": got_txt}))
                if "untyped-property" in exp:
                    # an un-annotated property must carry one of the two "missing type" markers
                    exp = set(exp) - {"untyped-property"}
                    if got & {"attr-untyped", "result-missing"}:
                        exp |= got & {"attr-untyped", "result-missing"}
                    else:
                        viols.append(Viol("marker-missing", f"{kindlabel}:untyped-property", {"file": rel, "decl": d.path(), "found": sorted(got)}))
                missing = sorted(exp - got)
                extra = sorted(got - exp)
                for mk in missing:
                    viols.append(Viol("marker-missing", f"{kindlabel}:{mk}", {"file": rel, "decl": d.path(), "expected": sorted(exp), "found": sorted(got)}))
                for mk in extra:
                    viols.append(Viol("marker-without-cause", f"{kindlabel}:{mk}", {"file": rel, "decl": d.path(), "expected": sorted(exp), "found": sorted(got)}))
                chk.case_ok(f"{kindlabel}:{'+'.join(sorted(exp)) or 'none'}", ident=(case.cid, m.py_module, d.path()))
                if len(exp) >= 3:
                    chk.sample({"decl": d.path(), "expected_markers": sorted(exp), "found": got_txt}, limit=3)
        return viols

    return judge


def main(tier: str, seed: int) -> int:
    chk = Check(PID, tier, seed)
    cases = gen(tier, seed)
    judge = make_judge(chk)
    drive(chk, cases, judge, per_proc=2)
    chk.run_probes(lambda c, r, probe=None: judge(c, r), build_case=lambda f: Case(cid="probe:" + f["id"], files=f["probe"]["files"], opts=f["probe"].get("opts", []), meta={"gt": f["probe"]["gt"] and {k: {p: set(v) for p, v in g.items()} for k, g in f["probe"]["gt"].items()}}, reach=REACH))
    chk.assumptions = [
        "the two marker kinds outside the statement's list (unknown type, internal class as type) are ignored for the exactly-when clause",
        "a tuple return annotation is split into several results and therefore needs no tuple marker; '-> None' needs no result marker",
    ]
    return chk.finish(
        rule="one case = one declaration whose preceding TODO lines are compared with the marker set expected from its ground-truth features; distinct = (declaration kind, expected marker set); declarations with >=1 expected marker are the non-trivial ones but neighbours without any are judged too",
        min_cases=800 if tier == "quick" else 12000,
    )


def replay(path: str) -> int:
    return generic_replay(path, gen, make_judge)
