"""C07 -- results mirror the return annotation, or soundly cover inferred returns.

Workload: (A) annotated returns over the C05 type grammar incl. tuples of 1-4 elements, unnamed or named by a NumPy
docstring; (B) un-annotated bodies built from a statement grammar (if/elif/else, try/except, for/while, with, match,
nested to depth 3) whose returns are literal expressions, tuples of them and conditional expressions of them.
Oracle: result lists parsed from the stubs; for (B) the ground truth is the per-position set of literal kinds the
return statements can produce and the check is set inclusion.
"""

from __future__ import annotations

from .. import tyterm as tt
from ..core import Check, Viol, drive, gated_features, generic_replay, rng_for
from ..run import Case
from ..stubs import StubSet
from . import c05

PID = "C07"
REACH = [
    "MyPyAstVisitor._parse_results",
    "MyPyAstVisitor._infer_type_from_return_stmts",
    "MyPyAstVisitor._create_inferred_results",
    "find_return_stmts_recursive",
    "result_name_generator",
    "StubsStringGenerator._create_result_string",
]

LITS = {
    "Int": ["1", "0", "42", "-7", "10**0" if False else "1_000"],
    "Float": ["1.5", "0.0", "-2.25", "1e3"],
    "String": ['"a"', '""', "'xyz'", '"multi word"'],
    "Boolean": ["True", "False"],
    "null": ["None"],
}


class BodyGen:
    """Statement grammar with literal returns; records for every return the literal kind per position."""

    def __init__(self, rng, gated: set) -> None:
        self.rng = rng
        self.gated = gated
        self.returns: list[list[str]] = []  # per return statement: kinds per position
        self.features: set[str] = set()

    def lit(self):
        k = self.rng.choice(list(LITS))
        return self.rng.choice(LITS[k]), k

    def ret_expr(self, ctx: str):
        r = self.rng.random()
        if r < 0.5:
            src, k = self.lit()
            self.returns.append([k])
            self.features.add(f"literal@{ctx}")
            return src
        if r < 0.85:
            n = self.rng.randint(2, 3)
            items = [self.lit() for _ in range(n)]
            if self.rng.random() < 0.3:
                # an element nothing can be inferred from (a call): it still occupies its position
                items[self.rng.randrange(n)] = ("helper_call()", "unknown")
                self.features.add(f"tuple-with-unknown@{ctx}")
            self.returns.append([k for _s, k in items])
            self.features.add(f"tuple@{ctx}")
            return ", ".join(s for s, _k in items)
        a, ka = self.lit()
        b, kb = self.lit()
        self.returns.append([ka])
        self.returns.append([kb])
        self.features.add(f"cond@{ctx}")
        return f"{a} if flag else {b}"

    def block(self, depth: int, indent: str, ctx: str) -> list[str]:
        out = []
        for _ in range(self.rng.randint(1, 2)):
            out += self.stmt(depth, indent, ctx)
        return out

    def stmt(self, depth: int, indent: str, ctx: str) -> list[str]:
        kinds = ["return", "return", "assign"]
        if depth > 0:
            kinds += ["if", "ifelse", "elif", "try", "for", "while", "with", "match"]
            for feat, k in (("return:inferred@try-else", "tryelse"), ("return:inferred@finally", "finally"), ("return:inferred@for-else", "forelse"), ("return:inferred@while-else", "whileelse")):
                if feat not in self.gated:
                    kinds.append(k)
        k = self.rng.choice(kinds)
        i2 = indent + "    "
        d = depth - 1
        if k == "return":
            return [f"{indent}return {self.ret_expr(ctx)}"]
        if k == "assign":
            return [f"{indent}flag = not flag"]
        if k == "if":
            # conditions the type checker decides statically for the analysing host (TYPE_CHECKING, platform): the
            # guarded returns are produced at run time / on other hosts and belong to the function's results
            cond = self.rng.choice(["flag", "flag", "n > 3", "not TYPE_CHECKING", 'sys.platform == "some-other-os"', "not flag and n"])
            ctx2 = "if-static" if ("TYPE_CHECKING" in cond or "platform" in cond) else "if"
            return [f"{indent}if {cond}:", *self.block(d, i2, ctx2)]
        if k == "ifelse":
            return [f"{indent}if flag:", *self.block(d, i2, "if"), f"{indent}else:", *self.block(d, i2, "else")]
        if k == "elif":
            return [f"{indent}if flag:", *self.block(d, i2, "if"), f"{indent}elif n > 2:", *self.block(d, i2, "elif"), f"{indent}else:", *self.block(d, i2, "else")]
        if k == "try":
            return [f"{indent}try:", *self.block(d, i2, "try"), f"{indent}except ValueError:", *self.block(d, i2, "except"), f"{indent}except (KeyError, TypeError) as e:", *self.block(d, i2, "except")]
        if k == "tryelse":
            return [f"{indent}try:", f"{i2}n += 1", f"{indent}except ValueError:", *self.block(d, i2, "except"), f"{indent}else:", *self.block(d, i2, "try-else")]
        if k == "finally":
            return [f"{indent}try:", f"{i2}n += 1", f"{indent}finally:", *self.block(d, i2, "finally")]
        if k == "for":
            return [f"{indent}for item in range(n):", *self.block(d, i2, "for")]
        if k == "forelse":
            return [f"{indent}for item in range(n):", f"{i2}n += item", f"{indent}else:", *self.block(d, i2, "for-else")]
        if k == "while":
            return [f"{indent}while n > 0:", f"{i2}n -= 1", *self.block(d, i2, "while")]
        if k == "whileelse":
            return [f"{indent}while n > 0:", f"{i2}n -= 1", f"{indent}else:", *self.block(d, i2, "while-else")]
        if k == "with":
            return [f"{indent}with open(str(n)) as fh:", *self.block(d, i2, "with")]
        if k == "match":
            return [f"{indent}match n:", f"{i2}case 1:", *self.block(d, i2 + "    ", "match"), f"{i2}case [a, b]:", *self.block(d, i2 + "    ", "match"), f"{i2}case _:", *self.block(d, i2 + "    ", "match")]
        raise AssertionError(k)


def tuple_permutation_clash(returns: list[list[str]]) -> bool:
    """Two tuple returns with the same multiset of kinds in a different order (recorded finding)."""
    seen = {}
    for r in returns:
        if len(r) >= 2:
            key = tuple(sorted(r))
            if key in seen and seen[key] != tuple(r):
                return True
            seen.setdefault(key, tuple(r))
    return False


def build_inferred_module(rng, gated: set, idx: int, n: int):
    lines = ["from __future__ import annotations\n\nimport sys\nfrom typing import TYPE_CHECKING\n\n\n"]
    gt = {}
    j = 0
    while j < n:
        bg = BodyGen(rng, gated)
        body = bg.block(rng.randint(1, 3), "    ", "top")
        if "return:inferred:tuple-permutations" in gated and tuple_permutation_clash(bg.returns):
            continue
        name = f"inf{idx}_{j}"
        role = rng.choice(["func", "func", "method"])
        expected: dict = {}
        for r in bg.returns:
            for pos, k in enumerate(r):
                expected.setdefault(pos, set()).add(k)
        src = f"def {name}({'self, ' if role == 'method' else ''}n: int, flag: bool = True):\n" + "\n".join(body) + "\n"
        if role == "method":
            lines.append(f"class Holder{idx}x{j}:\n" + "".join("    " + ln + "\n" for ln in src.splitlines()) + "\n\n")
            gt[f"Holder{idx}x{j}/{name}"] = {"kind": "inferred", "positions": expected, "features": sorted(bg.features), "src": src}
        else:
            lines.append(src + "\n\n")
            gt[name] = {"kind": "inferred", "positions": expected, "features": sorted(bg.features), "src": src}
        j += 1
    # a result that only the docstring knows (interface stub without return statement): what the tool makes of it is not
    # judged, but it must stay with this function - the functions without any result that follow are judged
    lines.append(f'def docres{idx}(n: int = 0):\n    """Doc.\n\n    Returns\n    -------\n    shown_{idx} : int\n        Only the docstring tells.\n    """\n    raise NotImplementedError\n\n\n')
    gt[f"docres{idx}"] = {"kind": "not-judged", "src": "docstring-only result"}
    lines.append(f"class NoRes{idx}:\n    def __init__(self, n: int = 0):\n        self.n = n\n\n    def touch(self, n: int = 0):\n        pass\n\n\n")
    gt[f"NoRes{idx}/touch"] = {"kind": "no-results", "src": "pass"}
    # no inferable return at all
    for k, body in enumerate(["    pass\n", "    n += 1\n", "    return helper_call()\n", "    x = 1\n    return obj.attribute.method()\n"]):
        name = f"noinf{idx}_{k}"
        lines.append(f"def {name}(n: int = 0, obj=None):\n{body}\n\n")
        gt[name] = {"kind": "no-results", "src": body}
    # an un-annotated function whose docstring NAMES its result without giving a type: the type is inferred, the name is the docstring's
    for q, (ret, kinds) in enumerate([("0", {"Int"}), ("'a'", {"String"}), ("1.5 if n else 2.5", {"Float"})]):
        nm_ = f"named_total_{idx}_{q}"
        lines.append(f'def namedonly{idx}_{q}(n: int = 0):\n    """Doc.\n\n    Returns\n    -------\n    {nm_} :\n        Only a name and a text.\n    """\n    return {ret}\n\n\n')
        gt[f"namedonly{idx}_{q}"] = {"kind": "inferred", "positions": {0: set(kinds)}, "features": ["docstring-name-without-type"], "src": f"return {ret}", "names": [nm_]}
    lines.append("def helper_call():\n    pass\n")
    return "".join(lines), gt


RET_LEAVES = [("int",), ("str",), ("bool",), ("float",), ("cls", "Cls"), ("enum", "Color"), ("list", ("int",)), ("dict", ("str",), ("int",)), ("opt", ("str",)), ("lit", ["a", 1]), ("union", [("int",), ("str",)]), ("set", ("int",)), ("callable", [("int",)], ("str",)), ("tuple", [("int",), ("str",)])]


def build_annotated_module(rng, idx: int, n: int, gated: set = frozenset()):
    lines = [c05.HEADER]
    gt = {}
    for j in range(n):
        name = f"ann{idx}_{j}"
        r = rng.random()
        if r < 0.1:
            anno_src, exp = "None", []
        elif r < 0.55:
            k = rng.randint(1, 4)
            # None is an element like any other: first, last, in the middle, alone, repeated
            elems = [rng.choice(RET_LEAVES) if rng.random() < 0.8 else ("None",) for _ in range(k)]
            if elems == [("None",)] and "return:annotated:one-tuple-of-none" in gated:
                elems = [("None",), ("None",)]
            anno_src = f"tuple[{', '.join(tt.py(e) for e in elems)}]"
            exp = [tt.ref_nf(e) for e in elems]
        else:
            t = rng.choice(RET_LEAVES[:-1]) if rng.random() < 0.6 else c05.random_term(rng, 3)
            if t[0] in ("tuple", "None"):
                t = ("int",)
            anno_src = tt.py(t)
            exp = [tt.ref_nf(t)]
        names = None
        doc = ""
        if exp and rng.random() < 0.4:
            names = [f"res_{chr(97 + q)}{j}" for q in range(len(exp))]
            doc = '    """Doc.\n\n    Returns\n    -------\n' + "".join(f"    {nm} : object\n        Text {q}.\n" for q, nm in enumerate(names)) + '    """\n'
        elif len(exp) >= 2 and rng.random() < 0.35:
            # one entry per result, some with a name and some without: the unnamed ones are result_1, result_2, ... in order
            given = [f"res_{chr(97 + q)}{j}" if rng.random() < 0.5 else None for q in range(len(exp))]
            if all(given) or not any(given):
                given[0], given[-1] = (None, given[-1] or f"res_z{j}") if rng.random() < 0.5 else (given[0] or f"res_a{j}", None)
            doc = '    """Doc.\n\n    Returns\n    -------\n' + "".join((f"    {nm} : object\n" if nm else "    object\n") + f"        Text {q}.\n" for q, nm in enumerate(given)) + '    """\n'
            counter = iter(range(1, len(exp) + 1))
            names = [nm or f"result_{next(counter)}" for nm in given]
        lines.append(f"def {name}() -> {anno_src}:\n{doc}    ...\n\n\n")
        gt[name] = {"kind": "annotated", "expected": exp, "names": names, "anno": anno_src}
    return "".join(lines), gt


def gen(tier: str, seed: int) -> list[Case]:
    rng = rng_for(seed, PID, "gen")
    gated = gated_features()
    n = 4 if tier == "quick" else 320
    cases = []
    for i in range(n):
        files = {"src/pk/__init__.py": "", "src/pk/m2.py": "class Other:\n    pass\n"}
        gts = {}
        text, gt = build_inferred_module(rng, gated, i, 150)
        files["src/pk/inferred.py"] = text
        gts["pk.inferred"] = gt
        text, gt = build_annotated_module(rng, i, 150, gated)
        files["src/pk/m1.py"] = text
        gts["pk.m1"] = gt
        # a module the docstring library cannot load (byte order mark) whose functions follow - in whatever order the
        # files are listed - a function with a documented Returns section: results must come from its own code only
        donor = '\n\ndef donor_{k}(n: int = 0) -> tuple[int, str]:\n    """Donor.\n\n    Returns\n    -------\n    major_{k} : int\n        First.\n    label_{k} : str\n        Second.\n    """\n    return n, "x"\n'
        files["src/pk/__init__.py"] = donor.format(k=0)
        files["src/pk/inferred.py"] += donor.format(k=1)
        files["src/pk/m1.py"] += donor.format(k=2)
        files["src/pk/m2.py"] += donor.format(k=3)
        legacy = (
            "def log_it(message):\n    pass\n\n\ndef count_it() -> int:\n    return 1\n\n\ndef pair_it() -> tuple[float, bool]:\n    return 1.0, True\n\n\n"
            "def guess_it(flag):\n    if flag:\n        return 1.5\n    return 'a'\n\n\nclass Old:\n    def touch(self, n=0):\n        n += 1\n"
        )
        files["src/pk/legacy_bom.py"] = {"hex": (b"\xef\xbb\xbf" + legacy.encode()).hex()}
        gts["pk.legacy_bom"] = {
            "log_it": {"kind": "no-results", "src": "pass"},
            "Old/touch": {"kind": "no-results", "src": "n += 1"},
            "count_it": {"kind": "annotated", "expected": [tt.ref_nf(("int",))], "names": None, "anno": "int"},
            "pair_it": {"kind": "annotated", "expected": [tt.ref_nf(("float",)), tt.ref_nf(("bool",))], "names": None, "anno": "tuple[float, bool]"},
        }
        # annotated results keep their docstring names only under a structured style; inferred ones need none
        # the documented result types ('object') differ from every annotation: with the code as preferred source (the default,
        # also spelled out) the warning setting must not matter
        noise = [[], ["-tsw", "ignore"], ["-tsp", "code", "-tsw", "warn"], ["-tsp", "code", "-tsw", "ignore"]][(i // 2) % 4]
        cases.append(Case(cid=f"c07-{i}", files=files, opts=["--docstyle", "numpydoc"] + (["-nc"] if i % 2 else []) + noise, meta={"gt": gts, "nc": bool(i % 2)}, reach=REACH))
    return cases


KIND_OF = {"Int": "Int", "Float": "Float", "String": "String", "Boolean": "Boolean"}


def covers(nf, kind: str) -> bool:
    if nf is None:
        return False
    alts, nullable = nf
    if kind == "null":
        return nullable
    for a in alts:
        if a[0] == "named" and a[1] == kind:
            return True
        if a[0] == "named" and a[1] == "Any":
            return True
        if a[0] == "lit" and {"int": "Int", "float": "Float", "str": "String", "bool": "Boolean"}.get(a[1]) == kind:
            return True
    return False


def make_judge(chk: Check):
    from .. import names as nm

    def judge(case: Case, rec: dict, probe=None) -> list[Viol]:
        viols = []
        ss = StubSet(rec["tree"])
        for e in ss.errors.values():
            chk.discarded[f"unparsable-stub:{e.rule}"] += 1
        nc = case.meta.get("nc", False)
        for rel, m in ss.files.items():
            gt = case.meta["gt"].get(m.py_module)
            if gt is None:
                continue
            for d in m.walk():
                if d.kind != "fun":
                    continue
                g = gt.get(d.path())
                if g is None:
                    continue
                got = [tt.stub_nf(r.type) for r in d.results]
                if g["kind"] == "annotated":
                    exp = g["expected"]
                    where = f"annotated:{len(exp)}"
                    if len(got) != len(exp):
                        viols.append(Viol("result-count", where, {"decl": d.path(), "annotation": g["anno"], "stub": [r.type.render() if r.type else None for r in d.results]}))
                    elif got != exp:
                        viols.append(Viol("result-type-or-order", where, {"decl": d.path(), "annotation": g["anno"], "expected": [tt.show_nf(x) for x in exp], "stub": [r.type.render() if r.type else None for r in d.results]}))
                    want_names = g["names"] or [f"result_{q + 1}" for q in range(len(exp))]
                    if nc:
                        want_names = [nm.names_ref(x) for x in want_names]
                    if len(got) == len(exp) and [r.name for r in d.results] != want_names:
                        viols.append(Viol("result-names", f"{where}:{'docstring' if g['names'] else 'default'}", {"decl": d.path(), "expected": want_names, "stub": [r.name for r in d.results]}))
                    chk.case_ok(f"{where}:{'named' if g['names'] else 'unnamed'}:{g['anno'].split('[')[0]}", ident=(case.cid, d.path()))
                elif g["kind"] == "not-judged":
                    chk.counters["docstring_only_result_not_judged"] += 1
                elif g["kind"] == "no-results":
                    if d.results:
                        viols.append(Viol("results-without-inferable-return", "no-results", {"decl": d.path(), "stub": [r.type.render() if r.type else None for r in d.results]}))
                    chk.case_ok("no-results")
                else:
                    pos = g["positions"]
                    where = f"inferred:{len(pos)}"
                    if pos == {0: {"null"}} and not got:
                        # a function that only ever returns None may be emitted like '-> None': no results
                        chk.case_ok("inferred:only-none")
                        continue
                    for p, kinds in pos.items():
                        if p >= len(got):
                            viols.append(Viol("inferred-result-missing-position", where, {"decl": d.path(), "position": p + 1, "kinds": sorted(kinds), "results": len(got), "source": g["src"][:600]}))
                            continue
                        for k in sorted(kinds):
                            if k == "unknown":
                                continue  # the position has to exist; nothing is claimed about its type
                            if not covers(got[p], k):
                                viols.append(Viol("inferred-result-does-not-cover", f"{where}:{k}", {"decl": d.path(), "position": p + 1, "literal_kind": k, "stub_type": d.results[p].type.render() if d.results[p].type else None, "features": g["features"], "source": g["src"][:600]}))
                    if not pos and d.results:
                        viols.append(Viol("results-without-inferable-return", "inferred:0", {"decl": d.path()}))
                    want_names = g.get("names") or [f"result_{q + 1}" for q in range(len(d.results))]
                    if nc:
                        want_names = [nm.names_ref(x) for x in want_names]
                    if [r.name for r in d.results] != want_names:
                        viols.append(Viol("result-names", f"{where}:default", {"decl": d.path(), "expected": want_names, "stub": [r.name for r in d.results]}))
                    chk.case_ok(f"{where}:{'+'.join(g['features'])[:60]}", ident=(case.cid, d.path()))
                    if len(pos) >= 2:
                        chk.sample({"source": g["src"][:400], "stub_results": [(r.name, r.type.render() if r.type else None) for r in d.results]}, limit=3)
        return viols

    return judge


def main(tier: str, seed: int) -> int:
    chk = Check(PID, tier, seed)
    cases = gen(tier, seed)
    judge = make_judge(chk)
    drive(chk, cases, judge, per_proc=1)
    chk.run_probes(lambda c, r, probe=None: judge(c, r), build_case=build_probe)
    chk.extra["gated_features"] = sorted(f for f in gated_features() if f.startswith("return:"))
    chk.assumptions = [
        "only explicit literal returns count as values a function can produce (no bare 'return', no fall-through None)",
        "result names: only the two unambiguous regimes are generated (all results named by a NumPy docstring with matching count, or none named)",
    ]
    return chk.finish(
        rule="one case = one function whose parsed result list is compared with its return annotation, or with the per-position literal kinds of its return statements; distinct = (regime, number of results, annotation head / statement contexts); all non-trivial",
        min_cases=800 if tier == "quick" else 12000,
    )


def build_probe(f: dict) -> Case:
    pr = f["probe"]
    gt = {}
    for mod, g in pr["gt"].items():
        gt[mod] = {}
        for name, e in g.items():
            e = dict(e)
            if e["kind"] == "inferred":
                e["positions"] = {int(k): set(v) for k, v in e["positions"].items()}
                e.setdefault("features", [])
                e.setdefault("src", "")
            elif e["kind"] == "annotated":
                e["expected"] = [tt.ref_nf(tt.from_json(t)) for t in e["expected_terms"]]
                e.setdefault("names", None)
            gt[mod][name] = e
    return Case(cid="probe:" + f["id"], files=pr["files"], opts=pr.get("opts", ["--docstyle", "numpydoc"]), meta={"gt": gt, "nc": False}, reach=REACH)


def replay(path: str) -> int:
    return generic_replay(path, gen, make_judge)
