"""C01 -- every analysable package is processed to completion under every option set.

Workload: kitchen-sink packages composed from a library of realistic declaration forms (vsds.snippets) in 1-3 nested
packages with re-exports of every form, plus samples of every other check's generator and the repository's own test
packages, under all 64 option combinations (covering schedule).  Monitors: M1 outcome / exception origin, M2 step
budget (sys.monitoring PY_START count, bounded progress instead of "terminates"), M3 files present.
Oracle: a run must end (a) normally with a parseable <src>__api.json, or (b) with the documented
ValueError('No files found to analyse.'), or (c) with the type checker refusing the input (discarded, counted).
"""

from __future__ import annotations

import itertools
import json
import os
import subprocess

from .. import pkggen as pg
from .. import snippets as sn
from ..core import VERIF, Check, Viol, gated_features, generic_replay, rng_for
from ..run import PY, Case, run_many

PID = "C01"
REACH = [
    "_get_aliases",
    "get_api",
    "ASTWalker.walk",
    "MyPyAstVisitor.mypy_type_to_abstract_type",
    "mypy_expression_to_sds_type",
    "mypy_expression_to_python_value",
    "MyPyAstVisitor._infer_type_from_return_stmts",
    "_create_outside_package_class",
]
STYLES = ["plaintext", "google", "numpydoc", "rest"]
STEP_BUDGET_BASE = 60_000_000  # ~45x the constant cost of one run (1.3M function starts)
STEP_BUDGET_PER_BYTE = 1000  # observed: < 300 steps per source byte


def option_sets():
    out = []
    for style, tr, nc, pref, warn in itertools.product(STYLES, (False, True), (False, True), ("code", "docstring"), ("warn", "ignore")):
        opts = ["--docstyle", style]
        if tr:
            opts.append("-tr")
        if nc:
            opts.append("-nc")
        opts += ["-tsp", pref, "-tsw", warn]
        out.append(opts)
    return out


def subst(src: str, n: int) -> str:
    return src.replace("{n}", str(n)).replace("{{", "{").replace("}}", "}")


def kitchen_sink(rng, gated: set, idx: int) -> dict:
    usable = [(f, s) for f, s in sn.SNIPPETS if f not in gated]
    files = {}
    pkgs = [("pk",)]
    for _ in range(rng.randint(0, 2)):
        parent = rng.choice(pkgs)
        pkgs.append((*parent, rng.choice(["core", "util", "_impl", "api", "data_model"]) + str(len(pkgs))))
    counter = idx * 1000
    mods = []
    for mi in range(rng.randint(3, 8)):
        home = rng.choice(pkgs)
        name = rng.choice(["mod", "_mod", "helpers", "types", "io"]) + f"_{mi}"
        form = rng.choice(sn.MODULE_DOCSTRING_FORMS)
        if form is not None and "*/" in form and "doc:text:has-comment-close" in gated:
            form = None
        parts = [sn.prelude_with(form)]
        exported = []
        for feat, src in rng.sample(usable, rng.randint(8, 20)):
            if feat == "func:dunder-module-level" and any("__getattr__" in p for p in parts):
                continue
            counter += 1
            parts.append(subst(src, counter) + "\n\n")
            if src.startswith("def f{n}"):
                exported.append(f"f{counter}")
            elif src.startswith("class C{n}"):
                exported.append(f"C{counter}")
        for style in rng.sample(list(sn.DOC_SNIPPETS), 2):
            counter += 1
            doc_src = sn.DOC_SNIPPETS[style].replace("{n}", str(counter))
            parts.append(doc_src + "\n\n")
        # docstring type expressions as people write them (every style; the configured style decides which are read)
        for style in rng.sample(["numpydoc", "google", "rest"], 2):
            counter += 1
            parts.append(sn.doc_type_function(style, f"dt{counter}", [sn.doc_type(rng, gated) for _ in range(5)]))
        files["src/" + "/".join(home) + f"/{name}.py"] = "".join(parts)
        mods.append((home, name, exported))
    # a test directory and a docs directory (only analysed with -tr)
    files["src/pk/tests/__init__.py"] = ""
    files["src/pk/tests/test_things.py"] = "def test_one() -> None:\n    assert True\n"
    files["src/pk/docs/conf.py"] = "project = 'x'\n"
    inits = {p: [] for p in pkgs}
    for home, name, exported in mods:
        qual = ".".join((*home, name))
        for e in exported[:3]:
            form = rng.choice(["rel", "abs", "alias", "up"])
            if form == "rel":
                inits[home].append(f"from .{name} import {e}")
            elif form == "abs":
                inits[home].append(f"from {qual} import {e}")
            elif form == "alias":
                inits[home].append(f"from .{name} import {e} as {e}_public")
            else:
                inits[("pk",)].append(f"from {qual} import {e}")
        r = rng.random()
        if r < 0.15:
            inits[home].append(f"from .{name} import *")
        elif r < 0.3:
            inits[home].append(f"from . import {name} as {name.strip('_')}_alias")
    for p, lines in inits.items():
        files["src/" + "/".join(p) + "/__init__.py"] = "\"\"\"Package docstring.\"\"\"\n" + "".join(ln + "\n" for ln in lines)
    return files


def other_generators(tier: str, seed: int, gated: set) -> list[tuple[str, dict]]:
    """Small samples of the workloads of the other checks: a run that aborts there is C01's business."""
    from . import c02, c03, c05, c06, c07, c08, c09, c13, c14, c15, c17, c20

    out = []
    k = 1 if tier == "quick" else 4
    for mod, name in ((c02, "c02"), (c03, "c03"), (c05, "c05"), (c06, "c06"), (c07, "c07"), (c09, "c09"), (c13, "c13"), (c14, "c14"), (c15, "c15"), (c17, "c17"), (c20, "c20")):
        try:
            cases = mod.gen("quick", seed + 17)
        except Exception as e:  # noqa: BLE001 - another check's generator must not break this check
            out.append((f"{name}-generator-error:{e!r}", {}))
            continue
        step = max(1, len(cases) // k)
        for c in cases[::step][:k]:
            files = dict(c.files)
            if getattr(c, "src", "src/pk") != "src/pk":
                files["__src__"] = c.src  # the directory the other check hands to -s (not the default package directory)
            out.append((f"{name}:{c.cid}", files))
    rng = rng_for(seed, PID, "ties")
    out.append(("c08:ties", c08.tie_package(rng, gated)))
    return out


def gen(tier: str, seed: int) -> list[Case]:
    rng = rng_for(seed, PID, "gen")
    gated = gated_features()
    osets = option_sets()
    cases = []
    n_pk = 24 if tier == "quick" else 300
    per = 3 if tier == "quick" else 8
    oi = seed % 64
    for i in range(n_pk):
        # every form of the library, also those that a recorded finding of ANOTHER property keeps out of that property's
        # workload (wrong output is their subject, an aborted run is this one's)
        files = kitchen_sink(rng, set(), i)
        nbytes = sum(len(v) for v in files.values())
        for _ in range(per):
            opts = osets[oi % 64]
            oi += 1
            cases.append(Case(cid=f"c01-ks{i}-o{oi % 64}", files=files, opts=opts, reach=REACH, step_budget=STEP_BUDGET_BASE + STEP_BUDGET_PER_BYTE * nbytes, meta={"kind": "kitchen-sink", "bytes": nbytes}))
    for name, files in other_generators(tier, seed, gated):
        if not files:
            continue
        src_dir = files.pop("__src__", None) if isinstance(files, dict) else None
        nbytes = sum(len(v or "") for v in files.values())
        for _ in range(2 if tier == "quick" else 4):
            opts = osets[oi % 64]
            oi += 1
            c = Case(cid=f"c01-{name}-o{oi % 64}", files=files, opts=opts, reach=REACH, step_budget=STEP_BUDGET_BASE + STEP_BUDGET_PER_BYTE * nbytes, meta={"kind": "other-generator:" + name.split(":")[0], "bytes": nbytes})
            if src_dir:
                c.src = src_dir
            cases.append(c)
    # whole-package scenarios (layouts, encodings, import forms, hostile docstrings), each under its own option sets
    from ..scenarios import PACKAGE_SCENARIOS

    for feat, sfiles, optsets in PACKAGE_SCENARIOS:
        files = {"src/" + k: ({"hex": v.hex()} if isinstance(v, bytes) else v) for k, v in sfiles.items()}
        nbytes = sum(len(v) for v in sfiles.values())
        for opts in optsets:
            cases.append(Case(cid=f"c01-scenario-{feat}-{len(cases)}", files=files, opts=list(opts), reach=REACH, step_budget=STEP_BUDGET_BASE + STEP_BUDGET_PER_BYTE * nbytes, meta={"kind": "scenario:" + feat, "bytes": nbytes}))
    # documented rejection, driven deliberately
    empties = {
        "only-init": {"src/pk/__init__.py": "X = 1\n"},
        "only-tests": {"src/pk/__init__.py": "", "src/pk/tests/__init__.py": "", "src/pk/tests/test_a.py": "def test_a() -> None: ...\n", "src/pk/docs/conf.py": "x = 1\n"},
        "empty-dir": {"src/pk/readme.txt": "no python here\n"},
    }
    for name, files in empties.items():
        for opts in (osets[oi % 64][:2], [*osets[(oi + 5) % 64][:2], "-nc"]):
            cases.append(Case(cid=f"c01-empty-{name}-{len(cases)}", files=files, opts=opts, reach=REACH, meta={"kind": "empty-input", "expect_rejection": True, "bytes": 0}))
    # the repository's own test packages
    repo_pk = ["various_modules_package", "docstring_parser_package", "main_package"]
    combos = osets if tier == "thorough" else [osets[(seed * 7 + j * 11) % 64] for j in range(4)]
    for pkname in repo_pk:
        for opts in combos:
            if "-tr" not in opts:
                opts = [*opts, "-tr"]  # the packages live below a directory named "tests"
            c = Case(cid=f"c01-repo-{pkname}-{len(cases)}", files={}, opts=opts, reach=REACH, step_budget=STEP_BUDGET_BASE * 2, meta={"kind": "repo-package", "bytes": 0})
            c.src = f"/repo/tests/data/{pkname}"
            cases.append(c)
    return cases


def _nothing_left_to_analyse(case: Case) -> bool:
    """Without the test-run flag every Python file of the analysed directory lies below a directory called test, tests or docs
    (the analysed directory itself included): the documented rejection is the documented answer."""
    if "-tr" in case.opts:
        return False
    root = (getattr(case, "src", None) or "src/pk").strip("/")
    inside = [k for k in case.files if k.endswith(".py") and (k == root or k.startswith(root + "/"))]
    if not inside:
        return True
    rootname = root.split("/")[-1]
    for k in inside:
        dirs = [rootname, *k[len(root) + 1 :].split("/")[:-1]]
        if not any(d in ("test", "tests", "docs") for d in dirs):
            return False
    return True


def classify(case: Case, rec: dict, chk: Check):
    """Returns a Viol or None; counts discarded (precondition) cases."""
    out = rec["outcome"]
    e = rec.get("exc") or {}
    kind = case.meta.get("kind", "?")
    if out == "ok":
        jf = [k for k in rec["tree"] if k.endswith("__api.json")]
        if len(jf) != 1:
            return Viol("completed-without-api-file", kind, {"files": sorted(rec["tree"])[:10]})
        try:
            json.loads(rec["tree"][jf[0]])
        except ValueError as ex:
            return Viol("api-file-not-json", kind, {"error": str(ex)[:200]})
        if case.meta.get("expect_rejection"):
            return Viol("empty-input-not-rejected", kind, {"files": sorted(rec["tree"])[:10]})
        return None
    if out == "budget":
        return Viol("step-budget-exceeded", str(e.get("tool_function")), {"budget": case.step_budget, "steps": rec.get("steps"), "frames": e.get("frames")})
    if out == "exception":
        if e.get("type") == "ValueError" and e.get("msg") == "No files found to analyse." and e.get("tool_function") == "get_api":
            if case.meta.get("expect_rejection") or _nothing_left_to_analyse(case):
                return None
            return Viol("non-empty-input-rejected", kind, {"exc": e})
        if e.get("type") == "CompileError" and e.get("module", "").startswith("mypy"):
            chk.discarded["type-checker-cannot-load-input"] += 1
            return "discard"
        return Viol("internal-error", f"{e.get('type')}@{e.get('tool_function')}", {"layer": e.get("layer"), "msg": e.get("msg"), "frames": e.get("frames"), "kind": kind, "argv_options": case.opts})
    if out == "systemexit":
        return Viol("argument-parser-exit", kind, {"exc": e, "argv_options": case.opts})
    return Viol("unknown-outcome", kind, {"outcome": out})


def regression_anchor() -> dict:
    """Content comparison with the upstream snapshot files (a note in the evidence, never a C01 verdict)."""
    try:
        p = subprocess.run([PY, os.path.join(VERIF, "tools", "snapshot_anchor.py"), "--json"], capture_output=True, text=True, timeout=600, cwd=os.path.join(VERIF, "harness"), check=False)  # noqa: S603
        line = [ln for ln in p.stdout.splitlines() if ln.startswith("{")]
        return json.loads(line[-1]) if line else {"error": p.stderr[-300:]}
    except Exception as e:  # noqa: BLE001
        return {"error": repr(e)}


def main(tier: str, seed: int) -> int:
    chk = Check(PID, tier, seed)
    cases = gen(tier, seed)
    # repo packages: files are not materialised, -s points into /repo
    batches = [[c] for c in cases]
    results = run_many(batches, steps="all")
    combos = set()
    max_steps = 0
    for (batch, recs, mon, err) in results:
        case = batch[0]
        if err:
            chk.runner_error(err)
            continue
        rec = recs[0]
        chk.note_run(rec, mon)
        max_steps = max(max_steps, rec.get("steps", 0))
        v = classify(case, rec, chk)
        if v == "discard":
            continue
        combos.add(tuple(o for o in case.opts if o != "-tr" or case.meta.get("kind") != "repo-package"))
        if v is not None:
            chk.violation(v, case, rec)
        sig = f"{case.meta.get('kind')}:{' '.join(case.opts)}"
        chk.case_ok(sig)
    chk.sample({"case": cases[0].cid, "options": cases[0].opts, "files": sorted(cases[0].files)[:10], "bytes": cases[0].meta.get("bytes")})
    chk.extra["option_combinations_run"] = len({tuple(c.opts[:2] + [o for o in c.opts[2:]]) for c in cases})
    chk.extra["max_steps_observed"] = max_steps
    chk.extra["step_budget"] = f"{STEP_BUDGET_BASE} + {STEP_BUDGET_PER_BYTE} per source byte (Python function starts, sys.monitoring)"
    chk.extra["snippet_features"] = len(sn.SNIPPETS)
    chk.extra["regression_anchor_upstream_snapshots"] = regression_anchor()
    m2 = chk.monitors.get("M2") or {}
    if not m2.get("attached"):
        chk.extra["step_monitor"] = "NOT attached: bounded progress was only guarded by the wall-clock watchdog"
    from .c03 import build_probe

    def probe_case(f):
        pr = f["probe"]
        if "files" in pr:
            return Case(cid="probe:" + f["id"], files=pr["files"], opts=pr.get("opts", []), meta={"kind": "probe"}, reach=REACH)
        return build_probe(f)

    def probe_judge(c, r, probe=None):
        v = classify(c, r, Check(PID, "probe", 0))
        return [v] if isinstance(v, Viol) else []

    chk.run_probes(probe_judge, build_case=probe_case)
    chk.assumptions = [
        "non-termination is restated as bounded progress: a step budget far above every observed run; the wall-clock watchdog only yields 'inconclusive'",
        "inputs the type checker itself refuses (CompileError) are outside the quantifier and discarded",
    ]
    return chk.finish(
        rule="one case = one CLI run classified by outcome; distinct = (workload kind, full option set); every run is non-trivial (>= 1 module, most packages several thousand source bytes)",
        min_cases=60 if tier == "quick" else 1500,
    )


def replay(path: str) -> int:
    return generic_replay(path, gen, lambda chk: (lambda c, r: [v for v in [classify(c, r, chk)] if isinstance(v, Viol)]))
