"""C17 -- members of private ancestors surface once in public subclasses.

Workload: generated class hierarchies (chains, several private bases, private bases in other modules, overriding at
every level, properties and static methods in private bases).  Ground truth: the hierarchy is executed by CPython and
the winner of every method name is taken from ``cls.__mro__`` restricted to the class and its private-chain ancestors;
every definition carries a distinct parameter name as a tag.  Oracle: member lists and ``sub`` clauses parsed from
the class stubs.
"""

from __future__ import annotations

from ..core import Check, Viol, drive, gated_features, generic_replay, rng_for, noise_opts
from ..run import Case
from ..stubs import StubSet

PID = "C17"
REACH = [
    "StubsStringGenerator._create_class_string",
    "StubsStringGenerator._create_internal_class_string",
    "StubsStringGenerator._create_class_method_string",
    "StubsStringGenerator._get_class_in_package",
    "MyPyAstVisitor.enter_classdef",
]
POOL = ["alpha", "beta_two", "gamma", "delta_far_only", "epsilon", "shared_name"]


class HClass:
    def __init__(self, name: str, module: str) -> None:
        self.name = name  # unique in the package (used for the CPython truth and for the parameter tags)
        self.src_name = name  # as written in the source: private classes of different modules may share it
        self.module = module
        self.bases: list[HClass] = []
        self.methods: list[tuple[str, str]] = []  # (name, kind) kind: inst | static | prop | private | dunder
        self.attrs: list[str] = []  # class attributes of a PUBLIC class named like a member of one of its private ancestors

    @property
    def private(self) -> bool:
        return self.name.startswith("_")

    def tag(self, m: str) -> str:
        return f"t_{m.replace('_', '')}_{self.name.strip('_').lower()}"

    def priv_ancestors(self) -> set:
        out = set()
        for b in self.bases:
            if b.private:
                out.add(b)
                out |= b.priv_ancestors()
        return out

    def all_ancestors(self) -> set:
        out = set()
        for b in self.bases:
            out.add(b)
            out |= b.all_ancestors()
        return out

    def body(self) -> str:
        lines = [f"    {a}: int = 0\n" for a in self.attrs]
        for m, kind in self.methods:
            if kind == "static":
                lines.append(f"    @staticmethod\n    def {m}({self.tag(m)}: int = 0) -> int: ...\n")
            elif kind == "prop":
                lines.append(f"    @property\n    def {m}(self) -> int: ...\n")
            else:
                lines.append(f"    def {m}(self, {self.tag(m)}: int = 0) -> int: ...\n")
        if not lines:
            lines.append("    pass\n")
        return "\n".join(lines)

    def source(self, local_names: dict, unique: bool = False) -> str:
        """``unique``: under the package-wide unique names (one namespace, for the CPython truth)."""
        if unique:
            bases = ", ".join(b.name for b in self.bases)
            return f"class {self.name}{'(' + bases + ')' if bases else ''}:\n{self.body()}\n"
        bases = ", ".join(local_names.get(b, b.src_name) for b in self.bases)
        return f"class {self.src_name}{'(' + bases + ')' if bases else ''}:\n{self.body()}\n"


def build_hierarchy(rng, idx: int, allow_diamond: bool, n_cls: int):
    mods = ["hier_a", "hier_b"]
    classes: list[HClass] = []
    for i in range(n_cls):
        private = rng.random() < 0.55
        name = ("_" if private else "") + f"K{idx}x{i}"
        c = HClass(name, rng.choice(mods) if rng.random() < 0.3 else mods[0])
        # bases among earlier classes
        if classes and rng.random() < 0.85:
            k = rng.choice([1, 1, 1, 2, 2, 3])
            cands = list(classes)
            rng.shuffle(cands)
            for b in cands:
                if len(c.bases) >= k:
                    break
                if b in c.all_ancestors() or any(b in x.all_ancestors() or x in b.all_ancestors() for x in c.bases):
                    continue  # keeps the MRO consistent
                if not b.private and not c.private and False:
                    continue
                if b.private and not allow_diamond:
                    mine = set().union(*[({x} | x.priv_ancestors()) for x in c.bases if x.private]) if any(x.private for x in c.bases) else set()
                    if ({b} | b.priv_ancestors()) & mine:
                        continue
                if not b.private and b.all_ancestors() & c.all_ancestors() and not allow_diamond:
                    continue
                # a private base must not hide a public ancestor (outside the statement): private classes derive from private classes only
                if c.private and not b.private:
                    continue
                c.bases.append(b)
        # methods
        for m in rng.sample(POOL, rng.randint(0, 3)):
            kind = "inst"
            r = rng.random()
            if c.private and r < 0.15:
                kind = "static"
            elif c.private and r < 0.3:
                kind = "prop"
            c.methods.append((m, kind))
        if rng.random() < 0.3:
            c.methods.append((f"_hidden_{i}", "inst"))
        if not c.private and rng.random() < 0.35:
            inherited = sorted({m for a in c.priv_ancestors() for m, _k in a.methods if not m.startswith("_")} - {m for m, _k in c.methods})
            if inherited:
                c.attrs.append(rng.choice(inherited))
        classes.append(c)
    return classes


def render_modules(classes: list[HClass]) -> dict:
    files = {"src/pk/__init__.py": ""}
    by_mod: dict = {}
    for c in classes:
        by_mod.setdefault(c.module, []).append(c)
    # hier_b may use classes of hier_a and vice versa only in definition order: put cross-module bases via imports;
    # to keep imports acyclic every class whose base lives in the other module is moved behind it by construction:
    order = {c: i for i, c in enumerate(classes)}
    for mod, cls in by_mod.items():
        imports = []
        text = []
        here = {c.src_name for c in cls}
        local: dict = {}
        for c in cls:
            for b in c.bases:
                if b.module != mod and b not in local:
                    if b.src_name in here or any(x.src_name == b.src_name for x in local):
                        # a class of this name is defined (or already imported) here: the usual "import ... as" pattern
                        local[b] = f"_Imp{len(local)}{b.name.strip('_')}"
                        imports.append(f"from pk.{b.module} import {b.src_name} as {local[b]}")
                    else:
                        local[b] = b.src_name
                        # absolute or relative spelling of the import (by the name's own letters: stable per class)
                        rel = sum(map(ord, b.name)) % 2 == 0
                        imports.append(f"from {'.' if rel else 'pk.'}{b.module} import {b.src_name}")
            text.append(c.source(local))
            if c.bases and sum(map(ord, c.name)) % 3 == 0:
                # the base class also occurs in a checked value expression of this module
                bname = local.get(c.bases[0], c.bases[0].src_name)
                text.append(f"def _is_{c.name.strip('_').lower()}(x: object) -> bool:\n    return isinstance(x, {bname})\n")
        files[f"src/pk/{mod}.py"] = "".join(dict.fromkeys(ln + "\n" for ln in imports)) + "\n\n" + "\n".join(text)
    del order
    return files


def acyclic(classes: list[HClass]) -> bool:
    """Module-level imports must not be cyclic: a class in A deriving from B.x while a class in B derives from A.y."""
    deps = set()
    for c in classes:
        for b in c.bases:
            if b.module != c.module:
                deps.add((c.module, b.module))
    return not any((b, a) in deps for a, b in deps)


def cpython_truth(classes: list[HClass]):
    """Execute the hierarchy in one namespace; returns per public class the expected inlined members."""
    src = "\n".join(c.source({}, unique=True) for c in classes)
    ns: dict = {}
    exec(compile(src, "hier", "exec"), ns)  # noqa: S102 - generated by us
    truth = {}
    for c in classes:
        if c.private:
            continue
        pyc = ns[c.name]
        chain = {c.name} | {a.name for a in c.priv_ancestors()}
        mro = [k for k in pyc.__mro__ if k.__name__ in chain]
        exp = {}
        for a in c.attrs:
            exp[a] = c.name  # the subclass's own definition (an attribute) hides what the ancestors define under that name
        for k in mro:
            for m in vars(k):
                if m.startswith("_"):
                    continue
                if not (callable(vars(k)[m]) or isinstance(vars(k)[m], (staticmethod, property))):
                    continue
                exp.setdefault(m, k.__name__)
        # depth-first pre-order over private bases (what "nearer before farther" means when branches do not share names)
        dfs = {}

        def visit(h: HClass):
            for b in h.bases:
                if b.private:
                    for m, _kind in b.methods:
                        if not m.startswith("_"):
                            dfs.setdefault(m, b.name)
                    visit(b)

        for m, _kind in c.methods:
            if not m.startswith("_"):
                dfs.setdefault(m, c.name)
        for a in c.attrs:
            dfs.setdefault(a, c.name)
        visit(c)
        truth[c.name] = {"winner_mro": exp, "winner_dfs": dfs, "public_bases": [b.name for b in c.bases if not b.private]}
    return truth


def gen(tier: str, seed: int) -> list[Case]:
    rng = rng_for(seed, PID, "gen")
    gated = gated_features()
    allow_diamond = "inherit:diamond" not in gated
    n = 30 if tier == "quick" else 1600
    cases = []
    # canonical shapes, present on every seed: a private class with two / three private bases below a public class,
    # a diamond, a chain of four, private bases in another module, overriding at the middle level
    def H(name, module, bases=(), methods=()):
        c = HClass(name, module)
        c.bases = list(bases)
        c.methods = [(m, "inst") for m in methods]
        return c

    a, b, c3 = H("_CanA", "hier_a0", methods=["alpha"]), H("_CanB", "hier_a0", methods=["beta_two"]), H("_CanC", "hier_b0", methods=["gamma"])
    mid2 = H("_CanMid2", "hier_a0", [a, b], ["epsilon"])
    mid3 = H("_CanMid3", "hier_b0", [c3, a, b])
    top, left, right = H("_CanTop", "hier_a0", methods=["shared_name"]), None, None
    left, right = H("_CanLeft", "hier_a0", [top], ["alpha"]), H("_CanRight", "hier_a0", [top], ["beta_two"])
    chain1 = H("_CanChain1", "hier_a0", methods=["delta_far_only"])
    chain2 = H("_CanChain2", "hier_a0", [chain1], ["gamma"])
    chain3 = H("_CanChain3", "hier_b0", [chain2], ["gamma"])
    canon = [a, b, c3, mid2, mid3, top, left, right, chain1, chain2, chain3,
             H("CanTwo", "hier_a0", [mid2], ["own_m"]), H("CanThree", "hier_b0", [mid3]), H("CanDiamond", "hier_a0", [left, right]),
             H("CanChain", "hier_b0", [chain3], ["epsilon"]), H("CanDirectTwo", "hier_a0", [b, a])]
    # public and private bases in modules whose names extend the name of the subclass's module (and the other way round)
    pb, prb = H("CanShape", "hier_a0_base", methods=["area"]), H("_CanNamed", "hier_a0_base", methods=["label"])
    pb2 = H("CanSolid", "hier_a", methods=["volume"])
    canon += [pb, prb, pb2, H("CanCircle", "hier_a0", [prb, pb], ["radius"]), H("CanCube", "hier_a0_base", [pb2]), H("CanBall", "hier_a0", [pb2, pb])]
    canon_truth = cpython_truth(canon)
    for nc in (False, True):
        cases.append(Case(cid=f"c17-canonical-{int(nc)}", files=render_modules(canon), opts=["-nc"] if nc else [], meta={"truth": canon_truth, "kinds": {k.name: dict(k.methods) for k in canon}, "classes": {k.name: k for k in canon}}, reach=REACH))
    i = 0
    while len(cases) < n:
        i += 1
        # several independent hierarchies per package
        allc = []
        for h in range(4):
            cl = build_hierarchy(rng, i * 10 + h, allow_diamond, rng.randint(5, 9))
            for c in cl:
                c.module = f"{c.module}{h % 2}"
            allc += cl
        if not acyclic(allc):
            continue
        # private classes of different modules that share their simple name (each module has its own "_Base")
        privs = [c for c in allc if c.private]
        rng.shuffle(privs)
        for b in privs:  # ... in particular a private class named like its own private base of another module
            for a in b.bases:
                if a.private and a.module != b.module and b.src_name == b.name and rng.random() < 0.7 and not any(x.src_name == a.src_name for x in allc if x.module == b.module):
                    b.src_name = a.src_name
                    break
        for a in privs[: len(privs) // 3]:
            for b in privs:
                if b.module != a.module and b.src_name == b.name and a.src_name == a.name and not any(x.src_name == a.src_name for x in allc if x.module == b.module):
                    b.src_name = a.src_name
                    break
        try:
            truth = cpython_truth(allc)
        except TypeError:
            continue  # inconsistent MRO: not a valid Python hierarchy
        kinds = {k: {m: kind for m, kind in c.methods} for c in allc for k in [c.name]}
        cases.append(Case(cid=f"c17-{len(cases)}", files=render_modules(allc), opts=(["-nc"] if len(cases) % 3 == 2 else []) + noise_opts(seed, PID, len(cases)), meta={"truth": truth, "kinds": kinds, "classes": {c.name: c for c in allc}}, reach=REACH))
    return cases


def make_judge(chk: Check):
    def judge(case: Case, rec: dict, probe=None) -> list[Viol]:
        viols = []
        ss = StubSet(rec["tree"])
        for e in ss.errors.values():
            chk.discarded[f"unparsable-stub:{e.rule}"] += 1
        stub_classes = {}
        for rel, m, d in ss.all_decls():
            if d.kind == "class" and d.owner is None:
                stub_classes.setdefault(d.pyname, []).append((rel, d))
        classes = case.meta["classes"]
        for cname, t in case.meta["truth"].items():
            hc = classes[cname]
            shape = _shape(hc)
            occ = stub_classes.get(cname, [])
            if len(occ) != 1:
                chk.discarded["class-not-found-once"] += 1
                continue
            rel, d = occ[0]
            # superclass list
            got_sub = [s.name for s in d.supers]
            if any(n.startswith("_") for n in got_sub):
                viols.append(Viol("private-class-in-sub-list", shape, {"class": cname, "sub": got_sub}))
            if got_sub != t["public_bases"]:
                viols.append(Viol("public-superclasses", shape, {"class": cname, "sub": got_sub, "expected": t["public_bases"]}))
            # ... "and imported when defined elsewhere": every listed superclass of another module is imported by this file
            imported = {(a or n) for _f, n, a in ss.files[rel].imports}
            for b in hc.bases:
                if not b.private and b.module != hc.module and b.src_name in got_sub:
                    if b.src_name not in imported:
                        viols.append(Viol("public-superclass-not-imported", shape, {"class": cname, "superclass": b.src_name, "defined_in": b.module, "imports": sorted(imported)}))
                    chk.case_ok(f"superclass-import:{shape}", ident=(case.cid, cname, b.src_name))
            # members
            members = {}
            for mem in d.members:
                if mem.kind in ("fun", "attr"):
                    members.setdefault(mem.pyname, []).append(mem)
            for m, owner in t["winner_mro"].items():
                got = members.get(m, [])
                where = f"{shape}:{'own' if owner == cname else 'inherited'}"
                if not got:
                    viols.append(Viol("inherited-member-missing", where, {"class": cname, "member": m, "defined_in": owner}))
                elif len(got) > 1:
                    viols.append(Viol("member-emitted-twice", where, {"class": cname, "member": m}))
                else:
                    mem = got[0]
                    if t["winner_dfs"].get(m) == owner and mem.kind == "fun":
                        tags = [p.pyname for p in mem.params or [] if p.pyname.startswith("t_")]
                        exp_tag = classes[owner].tag(m)
                        if tags and tags[0] != exp_tag:
                            viols.append(Viol("wrong-definition-shown", where, {"class": cname, "member": m, "shown_tag": tags[0], "expected_tag": exp_tag}))
                chk.case_ok(f"{where}:{case.meta['kinds'].get(owner, {}).get(m, '?')}", ident=(case.cid, cname, m))
            extra = [m for m in members if m not in t["winner_mro"] and not m.startswith("_")]
            if extra:
                viols.append(Viol("unexpected-member", shape, {"class": cname, "members": extra}))
            leaked = [m for m in members if m.startswith("_") and not (m.startswith("__") and m.endswith("__"))]
            if leaked:
                viols.append(Viol("private-member-inlined", shape, {"class": cname, "members": leaked}))
        chk.sample({"case": case.cid, "classes": len(case.meta["truth"]), "example": next(iter(case.meta["truth"].items()))}, limit=2)
        return viols

    return judge


def _shape(hc: HClass) -> str:
    pa = hc.priv_ancestors()
    direct = [b for b in hc.bases if b.private]
    depth = 0
    frontier = direct
    while frontier:
        depth += 1
        frontier = [b for x in frontier for b in x.bases if b.private]
    other = any(a.module != hc.module for a in pa)
    return f"priv-bases={len(direct)}:depth={depth}:pub-bases={len([b for b in hc.bases if not b.private])}{':other-module' if other else ''}"


def main(tier: str, seed: int) -> int:
    chk = Check(PID, tier, seed)
    cases = gen(tier, seed)
    judge = make_judge(chk)
    drive(chk, cases, judge, per_proc=2)
    chk.run_probes(lambda c, r, probe=None: judge(c, r), build_case=build_probe)
    chk.assumptions = [
        "private classes derive from private classes only (a public class hidden behind a private base is outside the statement)",
        "no ABCs (the tool drops the sub clause of abstract classes by design); attributes of private bases are not claimed, only methods/properties/static methods",
        "which definition wins is judged only where MRO and nearest-first depth order agree",
    ]
    return chk.finish(
        rule="one case = one (public class, member name) pair whose winner is taken from CPython's MRO; distinct = (hierarchy shape, own/inherited, member kind); all non-trivial",
        min_cases=150 if tier == "quick" else 3000,
    )


def build_probe(f: dict) -> Case:
    """Diamond: two private bases sharing a private root."""
    if f["id"] == "KF-C17-private-base-through-reexporting-package":
        import re

        base = HClass("_ViaBase", "hier_core")
        base.methods = [("alpha", "inst")]
        rel = HClass("ViaRel", "hier_a0")
        rel.bases = [base]
        rel.methods = [("own_m", "inst")]
        allc = [base, rel]
        files = render_modules(allc)
        files["src/pk/corepkg/_viabase.py"] = files.pop("src/pk/hier_core.py")
        files["src/pk/corepkg/__init__.py"] = "from ._viabase import _ViaBase\n"
        files["src/pk/hier_a0.py"] = re.sub(r"from (\.|pk\.)hier_core import _ViaBase", "from .corepkg import _ViaBase", files["src/pk/hier_a0.py"])
        assert "from .corepkg import _ViaBase" in files["src/pk/hier_a0.py"]
        files["src/pk/zz_user.py"] = "from pk.corepkg import _ViaBase\n\n\ndef make() -> object:\n    return _ViaBase()\n"
        truth = cpython_truth(allc)
        return Case(cid="probe:" + f["id"], files=files, opts=[], meta={"truth": truth, "kinds": {c.name: dict(c.methods) for c in allc}, "classes": {c.name: c for c in allc}}, reach=REACH)
    root = HClass("_Root", "hier_a0")
    root.methods = [("alpha", "inst")]
    a = HClass("_Left", "hier_a0")
    a.bases = [root]
    a.methods = [("beta", "inst")]
    b = HClass("_Right", "hier_a0")
    b.bases = [root]
    b.methods = [("gamma", "inst")]
    pub = HClass("Joined", "hier_a0")
    pub.bases = [a, b]
    pub.methods = [("delta", "inst")]
    allc = [root, a, b, pub]
    truth = cpython_truth(allc)
    return Case(cid="probe:" + f["id"], files=render_modules(allc), opts=[], meta={"truth": truth, "kinds": {c.name: dict(c.methods) for c in allc}, "classes": {c.name: c for c in allc}}, reach=REACH)


def replay(path: str) -> int:
    return generic_replay(path, gen, make_judge)
