"""C16 -- stub generation neither mutates the API model nor depends on earlier generations.

Driver (in the tool's process, real entry points get_api / StubsStringGenerator / generate_stub_data): the model is
dumped (M7: canonical deep dump of API.to_dict()) before and after every generation; generation #2 on the same
generator object and generation #3 on a fresh generator must give the texts of generation #1.  Stubs are parsed to
check that one inherited source method is rendered identically in every subclass.  CLI x 2 into one output directory
must leave exactly the tree of a single run.
"""

from __future__ import annotations

import json

from .. import pkggen as pg
from .. import sds
from ..core import Check, Viol, gated_features, rng_for
from ..run import Case, run_many
from ..stubs import StubSet
from . import c10

PID = "C16"
REACH = [
    "StubsStringGenerator.__call__",
    "StubsStringGenerator._create_type_string",
    "StubsStringGenerator._create_parameter_string",
    "StubsStringGenerator._has_node_shorter_reexport",
    "LiteralType.to_dict",
    "create_stub_files",
    "_create_outside_package_class",
]

PLUGIN = r'''
import json, os
from pathlib import Path
from safeds_stubgen.api_analyzer import get_api
from safeds_stubgen.docstring_parsing import DocstringStyle
from safeds_stubgen.stubs_generator import StubsStringGenerator, generate_stub_data

def canon(api):
    def dflt(o):
        if isinstance(o, (set, frozenset)):
            return sorted(map(str, o))
        return repr(o)
    d = api.to_dict()
    # element names / reexport lists live on the objects: to_dict covers them; add identity-free extras
    d["_reexport_map"] = {k: sorted(m.id for m in v) for k, v in api.reexport_map.items()}
    return json.dumps(d, sort_keys=True, default=dflt)

src = case["src_abs"]; root = case["root"]
nc = "-nc" in case["argv"]
style = DocstringStyle.from_string(case["argv"][case["argv"].index("--docstyle") + 1]) if "--docstyle" in case["argv"] else DocstringStyle.PLAINTEXT
api = get_api(root=Path(src), docstring_style=style)
dumps = [canon(api)]
gens = []
gen = StubsStringGenerator(api=api, convert_identifiers=nc)
for k in (1, 2):
    data = generate_stub_data(stubs_generator=gen, out_path=Path(root) / f"g{k}")
    gens.append(sorted((str(p)[len(str(Path(root) / f"g{k}")):], n, t, bool(b)) for p, n, t, b in data))
    dumps.append(canon(api))
gen2 = StubsStringGenerator(api=api, convert_identifiers=nc)
data = generate_stub_data(stubs_generator=gen2, out_path=Path(root) / "g3")
gens.append(sorted((str(p)[len(str(Path(root) / "g3")):], n, t, bool(b)) for p, n, t, b in data))
dumps.append(canon(api))
rec["extra"] = {"dumps_equal": [dumps[0] == d for d in dumps[1:]], "gens": gens,
                "dump_diff": None if all(dumps[0] == d for d in dumps[1:]) else [dumps[0][:0], ]}
if not all(dumps[0] == d for d in dumps[1:]):
    a = json.loads(dumps[0]); b = json.loads(next(d for d in dumps[1:] if d != dumps[0]))
    diffs = []
    def walk(x, y, path):
        if len(diffs) > 8: return
        if type(x) != type(y): diffs.append((path, repr(x)[:80], repr(y)[:80])); return
        if isinstance(x, dict):
            for k in sorted(set(x) | set(y)):
                if k not in x or k not in y: diffs.append((path + "/" + str(k), k in x, k in y))
                else: walk(x[k], y[k], path + "/" + str(k))
        elif isinstance(x, list):
            if len(x) != len(y): diffs.append((path, "len %d" % len(x), "len %d" % len(y))); return
            for i, (p, q) in enumerate(zip(x, y)): walk(p, q, path + "/" + str(i))
        elif x != y: diffs.append((path, repr(x)[:80], repr(y)[:80]))
    walk(a, b, "")
    rec["extra"]["dump_diff"] = diffs
'''


def history_package(rng, gated: set) -> dict:
    """Rich in what the anchors name: Literal|None in parameters/attributes/inherited methods, unions of literals,
    *args, aliased re-exports, private bases inherited by several public subclasses, foreign classes."""
    files = {"src/pk/__init__.py": "from pk.base_mod import Renamed as PublicAlias\nfrom pk.base_mod import helper_fn as helper_alias\n"}
    files["src/pk/base_mod.py"] = (
        "from typing import Literal, Optional, Union\nfrom pathlib import Path\nfrom decimal import Decimal\n\n\n"
        "class _PrivBase:\n"
        "    def inherited_lit(self, a: Literal[7] | None = None, b: Optional[Literal['x', 'y']] = None) -> Literal[1, 2] | None: ...\n\n"
        "    def inherited_union(self, a: Union[Literal[1], Literal['q'], None], *args: int, **kw: Literal['k'] | None) -> None: ...\n\n"
        "    def inherited_foreign(self, p: Path, d: Decimal | None = None) -> Path: ...\n\n\n"
        "class _PrivMid(_PrivBase):\n    def mid(self, a: Literal[True] | None) -> tuple[Literal[3] | None, str]: ...\n\n\n"
        "class SubOne(_PrivMid):\n    at1: Literal[5] | None = None\n\n    def own1(self, z: Literal[9] | None = None) -> None: ...\n\n\n"
        "class SubTwo(_PrivMid):\n    at2: Literal['v'] | None = None\n\n\n"
        "class SubThree(_PrivBase):\n    def __init__(self, c: Literal[2] | None = None, *rest: str) -> None:\n        self.inst: Literal[4] | None = c\n\n\n"
        "class NamedX:\n    def name(self) -> str: ...\n\n\nclass SizedX:\n    def size(self) -> int: ...\n\n\n"
        "class BothThenPrivate(NamedX, SizedX, _PrivBase):\n    pass\n\n\nclass PrivateThenBoth(_PrivBase, NamedX, SizedX):\n    pass\n\n\nclass OneThenPrivate(NamedX, _PrivMid):\n    pass\n\n\n"
        "class Renamed:\n    def method(self, a: Literal[11] | None) -> 'Renamed': ...\n\n\n"
        "def helper_fn(a: Literal['h'] | None = None, *args: tuple[int, str]) -> Literal['r'] | None: ...\n\n\n"
        "def uses_alias(x: SubOne, y: SubTwo) -> SubThree: ...\n"
    )
    # abstract classes (alone, next to another superclass, nested in a private base that several public classes inherit)
    files["src/pk/abstract_mod.py"] = (
        "from abc import ABC, abstractmethod\nimport abc\n\n\n"
        "class Named:\n    def name(self) -> str: ...\n\n\n"
        "class Shape(ABC):\n    def __init__(self, sides: int) -> None:\n        self.sides = sides\n\n    @abstractmethod\n    def area(self) -> float: ...\n\n\n"
        "class Solid(Named, ABC):\n    def __init__(self, faces: int = 6) -> None:\n        self.faces = faces\n\n\n"
        "class Meta(metaclass=abc.ABCMeta):\n    @abc.abstractmethod\n    def run(self) -> None: ...\n\n\n"
        "class _Registry:\n    class Entry(ABC):\n        def __init__(self, key: str) -> None:\n            self.key = key\n\n    def inherited_lookup(self, key: str) -> 'Entry': ...\n\n\n"
        "class DiskRegistry(_Registry):\n    pass\n\n\nclass MemoryRegistry(_Registry):\n    pass\n\n\nclass Square(Shape):\n    def area(self) -> float: ...\n"
    )
    # documented classes: examples in the class and in the __init__ docstring, a documented public class nested in a
    # private base that two public classes inherit (rendered twice)
    files["src/pk/documented_mod.py"] = (
        'class WithExamples:\n    """Has examples.\n\n    Examples\n    --------\n    >>> WithExamples(1)\n    """\n\n'
        '    def __init__(self, n: int) -> None:\n        """Create.\n\n        Parameters\n        ----------\n        n : int\n            Count.\n\n        Examples\n        --------\n        >>> w = WithExamples(2)\n        >>> w.n\n        """\n        self.n = n\n\n\n'
        'class _DocBase:\n    class Options:\n        """Options.\n\n        Examples\n        --------\n        >>> Options()\n        """\n\n        def __init__(self, level: int = 0) -> None:\n            """Init.\n\n            Examples\n            --------\n            >>> Options(3)\n            """\n            self.level = level\n\n'
        '    def inherited_documented(self, a: int) -> int:\n        """Doc.\n\n        Examples\n        --------\n        >>> x.inherited_documented(1)\n        """\n        return a\n\n\n'
        'class DocA(_DocBase):\n    pass\n\n\nclass DocB(_DocBase):\n    pass\n'
    )
    files["src/pk/other_mod.py"] = (
        "from typing import Literal\nfrom pathlib import Path\nfrom fractions import Fraction\nfrom logging.handlers import SocketHandler, QueueHandler\nfrom wsgiref.handlers import SimpleHandler\nfrom pk.base_mod import SubOne, _PrivBase\n\n\n"
        "class Far(_PrivBase):\n    def far_own(self, f: Fraction, p: Path) -> None: ...\n\n    def same_last_segment(self, a: SocketHandler, b: SimpleHandler, c: QueueHandler) -> None: ...\n\n\n"
        "def twice(a: Literal[7] | None, b: Literal[7] | None, *args: Literal[7] | None) -> SubOne: ...\n"
    )
    # a private base that reaches its subclasses through a package that re-exports it (relative and absolute import of the
    # package, the relative user generated first), the base's name also used in an expression
    files["src/pk/core/__init__.py"] = "from ._base import _Base\nfrom ._base import _Other as _OtherAlias\n"
    files["src/pk/core/_base.py"] = (
        "class _Base:\n    def describe(self, depth: int = 0) -> str: ...\n\n    @property\n    def label(self) -> str: ...\n\n\n"
        "class _Other:\n    def other_inherited(self) -> int: ...\n"
    )
    files["src/pk/alpha_user.py"] = "from .core import _Base\nfrom .core import _OtherAlias\n\n\nclass RelUser(_Base):\n    def own_rel(self) -> None: ...\n\n\nclass RelOther(_OtherAlias):\n    pass\n"
    files["src/pk/beta_user.py"] = (
        "from pk.core import _Base, _OtherAlias\n\n\nclass AbsUser(_Base):\n    def own_abs(self) -> None: ...\n\n\nclass AbsOther(_OtherAlias):\n    pass\n\n\n"
        "def make_user() -> AbsUser:\n    base = _Base()\n    other = _OtherAlias()\n    return AbsUser()\n"
    )
    files["src/pk/gamma_user.py"] = "from pk.core._base import _Base\n\n\nclass DirectUser(_Base):\n    pass\n"
    # names that are used as types but are no classes of the model (NewType, alias of a class), in the module that defines them
    # and in modules generated before and after it
    files["src/pk/ids.py"] = (
        "from typing import NewType\nfrom pathlib import Path\n\nUserId = NewType(\"UserId\", int)\nLocation = Path\n\n\n"
        "def next_id(u: UserId) -> UserId: ...\n\n\ndef where(p: Location) -> Location: ...\n"
    )
    files["src/pk/aa_before_ids.py"] = "from pk.ids import UserId, Location\n\n\ndef find_before(u: UserId, p: Location) -> UserId: ...\n"
    files["src/pk/users_after_ids.py"] = "from pk.ids import UserId\n\n\nclass Users:\n    def find(self, u: UserId) -> UserId: ...\n"
    return files


def gen(tier: str, seed: int):
    rng = rng_for(seed, PID, "gen")
    gated = gated_features()
    cfg = c10.make_cfg(gated)
    cfg.reexport_forms = tuple(f for f in cfg.reexport_forms if f.split("-")[0] in ("name", "alias"))
    packs = [("history", history_package(rng, gated))]
    from . import c01

    for i in range(2 if tier == "quick" else 24):  # every declaration form of C01's library
        packs.append((f"kitchen{i}", c01.kitchen_sink(rng_for(seed, PID, "kitchen-sink", i), gated, 90 + i)))
    n = 8 if tier == "quick" else 500
    for i in range(n):
        pkg = pg.random_pkg(rng, cfg)
        packs.append((f"random{i}", pg.render(pkg)))
    return packs


def inherited_consistency(ss: StubSet, chk: Check) -> list[Viol]:
    """One source method rendered identically in every class that shows it (same Python name + same parameter names)."""
    viols = []
    seen: dict = {}
    for rel, m, d in ss.all_decls():
        if d.kind == "fun" and d.owner is not None and d.pyname.startswith("inherited_"):
            # (the comment lines in front of it - documentation, TODO remarks - belong to the rendering)
            sig = (tuple((p.pyname, p.type.render() if p.type else None, p.default) for p in d.params or []), tuple((r.name, r.type.render() if r.type else None) for r in d.results), tuple(t for _k, t, _l in d.comments))
            key = d.pyname
            if key in seen and seen[key][0] != sig:
                viols.append(Viol("inherited-method-rendered-differently", "subclasses", {"method": key, "first": {"in": seen[key][1], "sig": repr(seen[key][0])[:400]}, "second": {"in": d.owner.pyname, "sig": repr(sig)[:400]}}))
            seen.setdefault(key, (sig, d.owner.pyname))
            chk.case_ok(f"inherited:{key}")
    return viols


def main(tier: str, seed: int) -> int:
    chk = Check(PID, tier, seed)
    packs = gen(tier, seed)
    batches = []
    index = []
    for name, files in packs:
        for nc in (False, True):
            opts = ["-nc"] if nc else []
            if name == "history" or name.startswith("kitchen"):
                # documented classes (examples in __init__ docstrings, ...) are parsed under a structured style
                opts = opts + ["--docstyle", ["numpydoc", "google", "rest"][(len(name) + int(nc)) % 3] if name != "history" else ("numpydoc" if not nc else "google")]
            api_case = Case(cid=f"c16-{name}-api-{int(nc)}", files=files, opts=opts, plugin=PLUGIN, meta={"name": name}, reach=REACH, collect=False)
            cli1 = Case(cid=f"c16-{name}-cli1-{int(nc)}", files=files, opts=opts, meta={"name": name}, reach=REACH)
            cli2 = Case(cid=f"c16-{name}-cli2-{int(nc)}", files=files, opts=opts, meta={"name": name}, reach=REACH, ws_of=cli1.cid)
            batches.append([api_case])
            index.append(("api", name, nc))
            batches.append([cli1, cli2])
            index.append(("cli", name, nc))
    results = run_many(batches, steps="reach")
    for (kind, name, nc), (batch, recs, mon, err) in zip(index, results, strict=True):
        if err:
            chk.runner_error(err)
            continue
        for rec in recs:
            chk.note_run(rec, mon)
        where_nc = "nc" if nc else "py"
        if kind == "api":
            rec = recs[0]
            if rec["outcome"] != "ok":
                chk.discarded[f"api-driver:{(rec.get('exc') or {}).get('type')}@{(rec.get('exc') or {}).get('tool_function')}"] += 1
                continue
            ex = rec["extra"]
            for k, same in enumerate(ex["dumps_equal"]):
                if not same:
                    paths = sorted({_gen_path(p) for p, _a, _b in (ex.get("dump_diff") or [])})
                    chk.violation(Viol("model-mutated-by-generation", ",".join(paths)[:120] or "model", {"package": name, "after_generation": k + 1, "differences": ex.get("dump_diff")}), batch[0], rec)
                    break
            g1, g2, g3 = ex["gens"]
            if g2 != g1:
                chk.violation(Viol("second-generation-differs", "same-generator", {"package": name, "naming": where_nc, "diff": _gen_diff(g1, g2)}), batch[0], rec)
            if g3 != g1:
                chk.violation(Viol("second-generation-differs", "fresh-generator", {"package": name, "naming": where_nc, "diff": _gen_diff(g1, g3)}), batch[0], rec)
            chk.case_ok(f"api:{name}:{where_nc}", n=3)
            chk.counters["model_dumps_compared"] += 3
            chk.counters["generations_compared"] += 2
            if name == "history":
                chk.sample({"package": name, "generations": 3, "stub_texts_per_generation": len(g1), "dumps_equal": ex["dumps_equal"]})
        else:
            r1, r2 = recs
            if r1["outcome"] != "ok" or r2["outcome"] != "ok":
                if r1["outcome"] == "ok":
                    chk.violation(Viol("second-run-fails", "cli", {"package": name, "exc": r2.get("exc")}), batch[1], r2)
                else:
                    chk.discarded["cli-run-failed"] += 1
                continue
            if r1["tree"] != r2["tree"]:
                diff = {k: ("only first" if k not in r2["tree"] else "only second" if k not in r1["tree"] else "content") for k in set(r1["tree"]) | set(r2["tree"]) if r1["tree"].get(k) != r2["tree"].get(k)}
                chk.violation(Viol("second-run-changes-output-directory", "cli", {"package": name, "naming": where_nc, "files": diff}), batch[1], r2)
            chk.case_ok(f"cli:{name}:{where_nc}")
            ss = StubSet(r1["tree"])
            for v in inherited_consistency(ss, chk):
                chk.violation(v, batch[0], r1)
    chk.assumptions = ["the model dump is API.to_dict() plus the re-export table (names, type trees, ids, flags); object identities are not compared"]
    return chk.finish(
        rule="cases = model dumps compared around each generation, generation pairs compared text by text, CLI run pairs into one directory, inherited methods compared across subclasses; distinct = (package, naming setting, kind)",
        min_cases=20 if tier == "quick" else 300,
    )


def _gen_path(p: str) -> str:
    parts = [x for x in p.split("/") if x and not x.isdigit()]
    return "/".join(parts[-2:])


def _gen_diff(a, b):
    sa, sb = {(x[0], x[1]): x[2] for x in a}, {(x[0], x[1]): x[2] for x in b}
    out = {"count_first": len(a), "count_second": len(b)}
    for k in sorted(set(sa) | set(sb)):
        if sa.get(k) != sb.get(k):
            out[str(k)] = "missing in one" if (k not in sa or k not in sb) else [ln for ln in sb[k].splitlines() if ln not in sa[k].splitlines()][:4]
            if len(out) > 6:
                break
    return out


def replay(path: str) -> int:
    with open(path, encoding="utf-8") as fh:
        rp = json.load(fh)
    print(json.dumps(rp["detail"], indent=1)[:4000])
    return 0
