"""C08 -- output is a deterministic function of package contents and options.

Oracle: sha256 of the complete output tree (API JSON + every stub) of a perturbed run equals that of the reference
run of the same package bytes and options.  Perturbations, alone and combined: PYTHONHASHSEED, directory enumeration
order (M4), iteration order of the two package-wide tables (M5), working directory, spelling of -s/-o, repetition
inside one process, populated mypy cache.
"""

from __future__ import annotations

import difflib

from .. import pkggen as pg
from ..core import Check, Viol, gated_features, rng_for
from ..run import Case, run_many
from . import c10

PID = "C08"
REACH = [
    "_get_mypy_asts",
    "API.to_dict",
    "_get_shortest_public_reexport",
    "MyPyAstVisitor._find_alias",
    "StubsStringGenerator._create_imports_string",
    "StubsStringGenerator._add_to_imports",
    "StubsStringGenerator._create_todo_msg",
    "create_stub_files",
    "MyPyAstVisitor._infer_type_from_return_stmts",
]


def tie_package(rng, gated: set) -> dict:
    """A package built to contain ties (DESIGN.md C08)."""
    files = {"src/pk/__init__.py": ""}
    # (a) one class re-exported by two packages of equal depth, used as a type elsewhere
    if "reexport:equal-depth-tie" not in gated:
        files["src/pk/core/__init__.py"] = ""
        files["src/pk/core/things.py"] = "class Thing:\n    def go(self) -> int: ...\n\n\ndef make_thing() -> Thing: ...\n"
        for p in ("aa", "bb", "cc"):
            files[f"src/pk/{p}/__init__.py"] = "from pk.core.things import Thing\nfrom pk.core.things import make_thing\n"
            files[f"src/pk/{p}/local_{p}.py"] = f"def only_{p}() -> None: ...\n"
        files["src/pk/user_of_thing.py"] = "from pk.core.things import Thing\n\n\ndef use(x: Thing) -> Thing: ...\n"
    # members that type-checker plugins generate (their order is the plugin's business), the decorator in every spelling
    body = "    def __init__(self, v: int) -> None:\n        self.v = v\n\n    def __eq__(self, other: object) -> bool:\n        return True\n\n    def __lt__(self, other: object) -> bool:\n        return True\n\n\n"
    files["src/pk/plugin_made.py"] = (
        "import functools\nimport functools as ft\nimport dataclasses\nfrom dataclasses import dataclass, dataclass as dc\nfrom functools import total_ordering, total_ordering as ordered\n\n\n"
        + "".join(f"@{deco}\nclass Ord{k}:\n{body}" for k, deco in enumerate(["functools.total_ordering", "total_ordering", "ordered", "ft.total_ordering"]))
        + "".join(f"@{deco}\nclass Data{k}:\n    b: int = 0\n    a: str = ''\n    c: float = 0.0\n\n\n" for k, deco in enumerate(["dataclass(order=True)", "dc(order=True, frozen=True)", "dataclasses.dataclass(order=True, eq=True)", "dc"]))
    )
    # modules that END with a generic class whose class-level attributes are typed by its type variables (nothing follows that
    # could take over what the class leaves behind), next to modules that start with plain functions: every enumeration order
    for nm_ in ("aa_tail", "mm_tail", "zz_tail"):
        files[f"src/pk/{nm_}.py"] = (
            "from typing import Generic, TypeVar\n\nK = TypeVar(\"K\")\nV = TypeVar(\"V\")\n\n\n"
            f"def first_of_{nm_}(n: int = 0) -> int: ...\n\n\nclass Pair_{nm_}(Generic[K, V]):\n    key: K\n    value: V\n"
        )
        files[f"src/pk/{nm_}_next.py"] = f"def area_{nm_}(w: float, h: float) -> float: ...\n\n\nclass Plain_{nm_}:\n    def __init__(self, n: int = 0) -> None:\n        self.n = n\n\n    def go(self, q: int) -> int: ...\n"
    # (b) the same short class name in several modules, each used next door
    for i, p in enumerate(("alpha", "beta", "gamma")):
        files[f"src/pk/{p}/__init__.py"] = ""
        files[f"src/pk/{p}/shapes.py"] = f"class Shape:\n    tag{i}: int = {i}\n\n\nclass Only{p.capitalize()}:\n    pass\n"
        files[f"src/pk/{p}/draw.py"] = f"from pk.{p}.shapes import Shape\n\n\ndef paint_{p}(s: Shape, t: \"Shape\") -> Shape: ...\n"
    files["src/pk/mixed.py"] = (
        "from pk.alpha.shapes import Shape as AShape\nfrom pk.beta.shapes import Shape as BShape\nfrom pk.gamma import shapes\n\n\n"
        "def mix(a: AShape, b: BShape, c: shapes.Shape) -> AShape: ...\n"
    )
    # (b2) equal class names in modules whose names are prefixes of each other, used as superclass and as value
    for mod in ("geo", "geo2", "geo_extra"):
        files[f"src/pk/{mod}.py"] = (
            f"class Pt:\n    def where_{mod}(self) -> int: ...\n\n\nclass Sub{mod.capitalize().replace('_', '')}(Pt):\n    origin = Pt()\n\n"
            f"    def clone(self, other: \"Pt\") -> \"Pt\":\n        p = Pt()\n        return p\n\n\ndef make_{mod}() -> Pt:\n    pt = Pt()\n    return pt\n"
        )
    # (b3) a class name defined (and instantiated) in several modules and used elsewhere only THROUGH its module
    # (no "from ... import Base" in the user, no definition there): several candidates, none of them local
    for mod in ("origin_one", "origin_two", "origin_three"):
        files[f"src/pk/{mod}.py"] = f"class Base:\n    def from_{mod}(self) -> int: ...\n\n\nDEFAULT = Base()\n\n\ndef make() -> Base:\n    return Base()\n"
    files["src/pk/through_module.py"] = (
        "from pk import origin_one, origin_three\nimport pk.origin_two\n\n\n"
        "class ImplOne(origin_one.Base):\n    pass\n\n\nclass ImplTwo(pk.origin_two.Base):\n    pass\n\n\n"
        "def convert(a: origin_one.Base, b: 'pk.origin_two.Base', c: origin_three.Base = origin_three.DEFAULT) -> origin_three.Base: ...\n"
    )
    # (c) docstring types in "or" notation with many and with repeated alternatives (parsed under the NumPy style)
    files["src/pk/doc_unions.py"] = (
        'def many(value, other=None):\n    """Many.\n\n    Parameters\n    ----------\n    value : int or str or float or bool or int\n        Repeats one alternative.\n'
        '    other : str or None or bytes or str or list[int] or dict[str, int]\n        Repeats another.\n\n    Returns\n    -------\n    result : bool or int or bool or str\n        R.\n    """\n\n\n'
        'class Documented:\n    """Doc.\n\n    Attributes\n    ----------\n    mode : str or int or str or None\n        M.\n    """\n\n    mode = 1\n\n'
        '    def __init__(self, size):\n        """Init.\n\n        Parameters\n        ----------\n        size : float or int or float or str\n            S.\n        """\n        self.size = size\n'
    )
    # (d) type variables with equal names, several in one signature
    files["src/pk/tv1.py"] = 'from typing import TypeVar\n\nT = TypeVar("T")\nU = TypeVar("U")\nV = TypeVar("V", bound=int)\n\n\ndef pick(a: T, b: U, c: V, d: list[U]) -> T: ...\n'
    files["src/pk/tv2.py"] = 'from typing import TypeVar\n\nT = TypeVar("T", bound=str)\nU = TypeVar("U")\n\n\ndef pick2(a: U, b: T) -> T: ...\n'
    # (e) inferred returns whose sort keys tie (un-annotated on purpose)
    if "return:inferred:tuple-tie" not in gated:
        files["src/pk/inferred.py"] = (
            "def tied(a):\n    if a:\n        return 1, \"x\"\n    elif a is None:\n        return 2.5, True\n    return \"y\", 3\n\n\n"
            "def many(a):\n    if a == 1:\n        return 1\n    if a == 2:\n        return \"s\"\n    if a == 3:\n        return 2.5\n    if a == 4:\n        return True\n    return None\n"
        )
    else:
        files["src/pk/inferred.py"] = (
            "def many(a):\n    if a == 1:\n        return 1\n    if a == 2:\n        return \"s\"\n    if a == 3:\n        return 2.5\n    if a == 4:\n        return True\n    return None\n"
        )
    # (f) many foreign classes, unions and TODO-rich signatures (sorted collections)
    files["src/pk/foreign.py"] = (
        "from pathlib import Path, PurePath\nfrom decimal import Decimal\nfrom fractions import Fraction\nfrom argparse import Namespace\nfrom random import Random\n"
        "from logging import Logger\nfrom threading import Thread\n\n\n"
        "def f1(a: Path, b: Decimal, c: Fraction, d: Namespace, e: Random, f: Logger, g: Thread, h: PurePath) -> Path | Decimal | Fraction | None: ...\n\n\n"
        "def f2(*args: int, a: set[int] = None, b: tuple[int, str] = None, c: list[int, str] = None, **kw: str): ...\n\n\n"
        "class K(Path, Decimal):\n    x: int | str | float | None = None\n\n    @classmethod\n    def cm(cls, a, /, b=1, *, c): ...\n"
    )
    return files


PERTURBATIONS = [
    ("hashseed", {"hashseed": "1"}),
    ("hashseed", {"hashseed": "2"}),
    ("hashseed", {"hashseed": "12345"}),
    ("dir-order:shuffle", {"perturb": {"dir_seed": 11, "dir_mode": "shuffle"}}),
    ("dir-order:reversed", {"perturb": {"dir_seed": 1, "dir_mode": "reversed"}}),
    ("dir-order:init-last", {"perturb": {"dir_seed": 1, "dir_mode": "init_last"}}),
    ("set-order", {"perturb": {"set_seed": 7}}),
    ("set-order", {"perturb": {"set_seed": 8}}),
    ("cwd:package-parent", {"cwd": "src"}),
    ("cwd:package-dir", {"cwd": "src/pk"}),
    ("cwd:output-dir", {"cwd": "out"}),
    ("spelling:relative", {"src_spelling": "rel", "out_spelling": "rel"}),
    ("spelling:trailing-slash", {"src_spelling": "abs_slash", "out_spelling": "rel_slash"}),
    ("spelling:dotdot", {"src_spelling": "dotdot", "out_spelling": "dotdot"}),
    ("combined", {"hashseed": "3", "perturb": {"dir_seed": 5, "dir_mode": "shuffle", "set_seed": 9}, "cwd": "src", "out_spelling": "rel"}),
    ("combined", {"hashseed": "4", "perturb": {"dir_seed": 6, "dir_mode": "reversed", "set_seed": 10}, "cwd": "out", "src_spelling": "rel_dot"}),
]


def gen(tier: str, seed: int):
    """Returns list of groups; a group = (name, reference case, [(perturbation name, case)...])."""
    rng = rng_for(seed, PID, "gen")
    gated = gated_features()
    cfg = c10.make_cfg(gated)
    groups = []
    n_random = 5 if tier == "quick" else 80
    packs = [("ties", tie_package(rng, gated), ["--docstyle", "numpydoc"]), ("ties-nc", tie_package(rng, gated), ["-nc"])]
    for i in range(n_random):
        pkg = pg.random_pkg(rng, cfg)
        packs.append((f"random{i}", pg.render(pkg), ["-nc"] if i % 2 else []))
    # feature-rich packages (every declaration form of C01's library: generic classes next to methods with type variables
    # of the same name in other modules, overloads, dataclasses, docstrings of every style, re-exports)
    from . import c01

    for i in range(2 if tier == "quick" else 16):
        ks = c01.kitchen_sink(rng_for(seed, PID, "kitchen-sink", i), gated, 50 + i)
        packs.append((f"kitchen{i}", ks, [["--docstyle", "numpydoc"], ["-nc", "--docstyle", "google"], ["-nc"], ["--docstyle", "rest", "-tsp", "docstring"]][i % 4]))
    # source directory that is not a package itself: packages at different depths in sibling sub-trees, reached through
    # plain directories (which package is "nearest" must not depend on the enumeration order)
    layout = {
        "src/proj/alpha/libs/core/__init__.py": "from .engine import Engine\n",
        "src/proj/alpha/libs/core/engine.py": "class Engine:\n    def start(self, key: int) -> bool: ...\n",
        "src/proj/beta/pkg/__init__.py": "from .shapes import area\n",
        "src/proj/beta/pkg/shapes.py": "def area(w: float, h: float) -> float: ...\n\n\nclass Shape:\n    sides: int = 0\n",
        "src/proj/gamma/deeper/still/pkg2/__init__.py": "",
        "src/proj/gamma/deeper/still/pkg2/mod.py": "def far() -> None: ...\n",
        "src/proj/zeta/pkg3/__init__.py": "",
        "src/proj/zeta/pkg3/mod3.py": "def near() -> None: ...\n",
    }
    packs.append(("nonpackage-src", layout, []))
    extra = 0 if tier == "quick" else 40
    for name, files, opts in packs:
        ref = Case(cid=f"c08-{name}-ref", files=files, opts=opts, hashseed="0", meta={"group": name}, reach=REACH)
        if name == "nonpackage-src":
            ref.src = "src/proj"
        perts = []
        plist = list(PERTURBATIONS)
        for j in range(extra):
            plist.append(("hashseed", {"hashseed": str(100 + j)}))
            plist.append(("combined", {"hashseed": str(200 + j), "perturb": {"dir_seed": 300 + j, "dir_mode": "shuffle", "set_seed": 400 + j}}))
        if tier == "quick" and name.startswith(("random", "kitchen")):
            plist = [p for k, p in enumerate(plist) if k % 2 == (len(groups) % 2)]
        for k, (pname, kw) in enumerate(plist):
            c = Case(cid=f"c08-{name}-p{k}", files=files, opts=opts, meta={"group": name, "pert": pname}, reach=REACH)
            c.src = ref.src
            c.hashseed = kw.get("hashseed", "0")
            c.perturb = kw.get("perturb", {})
            c.cwd = kw.get("cwd", "cw")
            c.src_spelling = kw.get("src_spelling", "abs")
            c.out_spelling = kw.get("out_spelling", "abs")
            perts.append((pname, c))
        groups.append((name, ref, perts))
    return groups


def _diff(a: dict, b: dict) -> dict:
    out = {}
    for k in sorted(set(a) | set(b)):
        if a.get(k) != b.get(k):
            if k not in a or k not in b:
                out[k] = "only in " + ("reference" if k in a else "perturbed run")
            else:
                d = list(difflib.unified_diff(a[k].splitlines(), b[k].splitlines(), lineterm="", n=0))
                out[k] = d[2:10]
    return out


def main(tier: str, seed: int) -> int:
    chk = Check(PID, tier, seed)
    groups = gen(tier, seed)
    batches = []
    index = []
    for name, ref, perts in groups:
        # reference, then a repetition in the same process into a fresh workspace (populated mypy cache, process history)
        rep = Case(cid=ref.cid + "-repeat", files=ref.files, opts=ref.opts, hashseed="0", meta={"group": name, "pert": "repetition+populated-cache"}, reach=REACH)
        rep.src = ref.src
        batches.append([ref, rep])
        index.append((name, "ref"))
        for pname, c in perts:
            batches.append([c])
            index.append((name, pname))
    results = run_many(batches, steps="reach")
    refs = {}
    for (name, kind), (batch, recs, mon, err) in zip(index, results, strict=True):
        if err:
            chk.runner_error(err)
            continue
        for rec in recs:
            chk.note_run(rec, mon)
        if kind == "ref":
            refs[name] = recs[0]
    seen_pert = set()
    for (name, kind), (batch, recs, mon, err) in zip(index, results, strict=True):
        if err or name not in refs:
            continue
        ref = refs[name]
        if ref["outcome"] != "ok":
            chk.discarded[f"reference-run-{ref['outcome']}"] += 1
            continue
        pairs = [(batch[1], recs[1])] if kind == "ref" else [(batch[0], recs[0])]
        for case, rec in pairs:
            pname = case.meta["pert"]
            if rec["outcome"] != ref["outcome"]:
                chk.violation(Viol("outcome-differs", pname, {"group": name, "reference": ref["outcome"], "perturbed": rec["outcome"], "exc": rec.get("exc")}), case, rec)
                continue
            if rec["digest"] != ref["digest"]:
                d = _diff(ref["tree"], rec["tree"])
                kinds = sorted({"json" if k.endswith(".json") else "stub" for k in d})
                chk.violation(Viol("output-differs", f"{pname.split(':')[0]}:{'+'.join(kinds)}", {"group": name, "perturbation": pname, "files": d}), case, rec)
            chk.case_ok(f"{name}:{pname}")
            seen_pert.add(pname)
    if groups:
        chk.sample({"group": groups[0][0], "reference_digest": refs.get(groups[0][0], {}).get("digest"), "files": sorted((refs.get(groups[0][0], {}).get("tree") or {}))[:8]})
    chk.extra["perturbations"] = sorted(seen_pert)
    chk.extra["hash_seeds"] = sorted({c.hashseed for _n, _r, ps in groups for _p, c in ps})
    m5 = chk.monitors.get("M5") or {}
    if not (m5.get("reexport_map") and m5.get("aliases")):
        chk.extra["set_order_injector"] = "NOT attached: the Module-keyed tables were perturbed by PYTHONHASHSEED only"
    if chk.counters["dir_permutations_applied"] == 0:
        chk.inconc("directory-order injector (M4) never permuted a listing")
    # probes of recorded findings: each probe is a tie package that must still differ across hash seeds
    run_probes(chk)
    chk.assumptions = [
        "reference = console-script start (script directory on sys.path, cwd not), PYTHONHASHSEED=0, no injector active",
        "injectors only produce states the program can legitimately be in: permutations of directory listings, iteration orders of sets",
    ]
    return chk.finish(
        rule="one case = one perturbed run compared with its reference run (tree digest, JSON included); distinct = (package, perturbation); all non-trivial (>= 20 output files in the tie packages)",
        min_cases=40 if tier == "quick" else 1500,
    )


def run_probes(chk: Check) -> None:
    from ..core import load_known

    for f in load_known(PID):
        files = f["probe"]["files"]
        opts = f["probe"].get("opts", [])
        seeds = f["probe"].get("hashseeds", ["0", "1", "2", "3", "4", "5"])
        batches = [[Case(cid=f"probe:{f['id']}:{s}", files=files, opts=opts, hashseed=s)] for s in seeds]
        res = run_many(batches, steps="off")
        digests = set()
        for _b, recs, _m, err in res:
            if err:
                chk.runner_error(err)
                break
            digests.add(recs[0]["digest"] if recs[0]["outcome"] == "ok" else "exc:" + str((recs[0].get("exc") or {}).get("type")))
        if len(digests) > 1:
            chk.known_lines.append(f"KNOWN-FINDING: property={PID} {f['id']}: {f['what']}")
            chk.known_seen.append(f["id"])


def replay(path: str) -> int:
    import json

    with open(path, encoding="utf-8") as fh:
        rp = json.load(fh)
    print(json.dumps(rp["detail"], indent=1)[:4000])
    return 0
