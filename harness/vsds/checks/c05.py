"""C05 -- type hints are translated faithfully and compositionally.

Workload: annotation terms over the grammar of the property (exhaustive to depth 2 over the base alphabet,
seeded random to depth 4) placed in the five positions {function parameter, constructor parameter, result,
class attribute, instance attribute}.  Oracle: the type parsed from the stub, normalised, equals the normalised
reference translation (vsds.tyterm), and one term gives one normal form in every position.
"""

from __future__ import annotations

import itertools
import re

from .. import tyterm as tt
from ..core import Check, Viol, drive, gated_features, generic_replay, rng_for
from ..run import Case
from ..stubs import StubSet

PID = "C05"
POSITIONS = ["param", "ctor", "result", "cattr", "iattr", "param-among-others", "inherited"]

REACH = [
    "MyPyAstVisitor.mypy_type_to_abstract_type",
    "MyPyAstVisitor._parse_parameter_data",
    "MyPyAstVisitor._create_attribute",
    "MyPyAstVisitor._parse_results",
    "StubsStringGenerator._create_type_string",
    "StubsStringGenerator._create_parameter_string",
]

LEAVES = [
    ("int",),
    ("str",),
    ("bool",),
    ("float",),
    ("Any",),
    ("cls", "Cls"),
    ("cls", "Other"),
    ("enum", "Color"),
    ("tvar", "T"),
    ("lit", ["a"]),
    ("lit", [1]),
    ("lit", [True]),
    ("lit", ["a", "b"]),
    ("lit", [1, "x", False]),
    ("lit", [1, True]),
    ("lit", [False, 0, "z"]),
]
LEAVES_SMALL = [("int",), ("str",), ("cls", "Cls"), ("cls", "Other"), ("enum", "Color"), ("lit", ["a", 2])]


def unary_constructors(x):
    yield ("list", x)
    yield ("List", x)
    yield ("Sequence", x)
    yield ("Collection", x)
    yield ("set", x)
    yield ("Set", x)
    yield ("opt", x)
    yield ("ornone", x)
    yield ("tuple", [x])
    yield ("callable", [], x)
    yield ("callable", [x], ("None",))
    yield ("generic", "Box", [x])


def binary_constructors(x, y):
    yield ("dict", x, y)
    yield ("Mapping", x, y)
    yield ("Dict", x, y)
    yield ("tuple", [x, y])
    yield ("union", [x, y])
    yield ("pipe", [x, y])
    yield ("callable", [x], y)
    yield ("callable", [x, y], ("int",))
    yield ("callable", [x], ("tuple", [y, ("int",)]))


def depth2_terms():
    out = []
    out += LEAVES
    out += [("None",), ("barelist",), ("baredict",)]
    for x in LEAVES:
        out += list(unary_constructors(x))
    for x, y in itertools.product(LEAVES_SMALL + [("float",), ("tvar", "T")], repeat=2):
        out += list(binary_constructors(x, y))
    for x in LEAVES_SMALL:
        out.append(("union", [x, x, ("int",)]))
        out.append(("union", [x, ("None",)]))
        out.append(("union", [x, ("int",), ("None",)]))
        out.append(("tuple", [x, ("int",), ("str",)]))
    # boundary shapes: the empty tuple type, alone and inside every unary constructor; a union of one member
    empty = ("tuple", [])
    out.append(empty)
    out += [t for t in unary_constructors(empty) if t[0] not in ("generic",)]
    out += [("dict", ("str",), empty), ("union", [empty, ("int",)]), ("tuple", [empty, ("int",)]), ("union", [("int",)])]
    # unions that hold None AND members which coincide (written twice, None twice, different Python types with one image)
    for x in LEAVES_SMALL[:4]:
        out += [("union", [x, x, ("None",)]), ("union", [("None",), x, ("None",)]), ("pipe", [("None",), x, ("None",)]), ("union", [x, ("None",), x]),
                ("opt", ("union", [("list", x), ("Sequence", x)])), ("union", [("Mapping", ("str",), x), ("dict", ("str",), x), ("None",)]),
                ("list", ("union", [x, ("None",), x])), ("pipe", [("opt", x), ("None",)])]
    # None as an element: of tuples (first, last, middle, only, twice), of collections and of callables
    none = ("None",)
    for x in LEAVES_SMALL[:3]:
        out += [("tuple", [x, none]), ("tuple", [none, x]), ("tuple", [x, none, ("float",)])]
    # (the one-element tuple of None at result position is C07's matter - one result per element - and recorded there)
    out += [("tuple", [none, none]), ("list", none), ("dict", ("str",), none), ("set", none), ("callable", [none], ("int",)),
            ("callable", [("int",)], ("tuple", [("int",), none])), ("generic", "Box", [none])]
    # depth 3 spot: constructor of constructor over the small leaves
    for x in LEAVES_SMALL[:4]:
        for inner in unary_constructors(x):
            if inner[0] in ("List", "Collection", "Set"):
                continue
            for outer in unary_constructors(inner):
                if outer[0] in ("List", "Collection", "Set", "Sequence"):
                    continue
                out.append(outer)
    return out


def random_term(rng, depth):
    if depth <= 1 or rng.random() < 0.2:
        return rng.choice(LEAVES)
    r = rng.random()
    if r < 0.5:
        return rng.choice(list(unary_constructors(random_term(rng, depth - 1))))
    if r < 0.9:
        return rng.choice(list(binary_constructors(random_term(rng, depth - 1), random_term(rng, depth - 1))))
    n = rng.randint(2, 3)
    items = [random_term(rng, depth - 1) for _ in range(n)]
    if rng.random() < 0.4:
        items.append(items[0])
    if rng.random() < 0.3:
        items.append(("None",))
    return (rng.choice(["union", "pipe"]), items)


def features(term, pos) -> set[str]:
    """Generator feature tags of a term in a position (DESIGN.md appendix B)."""
    f = set()

    def walk(t, top=False):
        k = t[0]
        f.add(f"type:{k}")
        if k == "cls" and t[1] == "Other":
            f.add("type:class-other-module")
        if k == "generic":
            f.add("type:generic")
        if k in ("callable",):
            f.add(f"type:callable@{pos}")
        if k == "tvar":
            f.add(f"type:tvar@{pos}")
        if k == "pipe" and not top:
            f.add("type:pipe-nested")
        if k in ("union", "pipe", "opt", "ornone") and top is False:
            f.add("type:union-nested")
        if k == "lit" and not top:
            f.add("type:literal-nested")
        for sub in t[1:]:
            if isinstance(sub, tuple):
                walk(sub)
            elif isinstance(sub, list):
                for s in sub:
                    if isinstance(s, tuple):
                        walk(s)

    walk(term, top=True)
    if term[0] == "callable" and pos in ("cattr", "iattr"):
        f.add(f"type:callable-top@{pos}")
    if pos == "cattr" and term[0] in ("list", "List") :
        f.add("type:list@cattr")
    if any(x.startswith("type:lit") for x in f) and any(x in f for x in ("type:union", "type:pipe", "type:opt", "type:ornone")):
        f.add("type:literal-in-union")
    return f


HEADER = """from typing import Any, Callable, Collection, Dict, Generic, List, Literal, Mapping, Optional, Sequence, Set, TypeVar, Union
from enum import Enum
from pk.m2 import Other

T = TypeVar("T")


def _any() -> Any: ...


class Cls:
    pass


class Color(Enum):
    RED = 1
    BLUE = 2


class Box(Generic[T]):
    pass

"""


def build_case(cid: str, items: list, opts: list) -> Case:
    """items: list of (term, position)."""
    lines = [HEADER]
    gt = []
    for i, (term, pos) in enumerate(items):
        src = tt.py(term)
        if pos == "param":
            name = f"p{i}"
            lines.append(f"def {name}(x: {src}) -> None: ...\n\n")
        elif pos == "param-among-others":
            # the same annotation between parameters of every other kind (what is decided for one parameter must not
            # colour the next): position-only tuple, *args, keyword-only x, **kwargs
            name = f"q{i}"
            lines.append(f"def {name}(first: tuple[int, str], second: set[int] = None, /, *args: int, x: {src}, last: list[int, str] = None, **kwargs: str) -> None: ...\n\n")
        elif pos == "inherited":
            # a method of a private base class: the SAME type object is rendered once per public subclass
            name = f"InhC{i}"
            lines.append(f"class _InhBase{i}:\n    def m(self, x: {src}) -> None: ...\n\n\nclass InhA{i}(_InhBase{i}):\n    pass\n\n\nclass InhB{i}(_InhBase{i}):\n    pass\n\n\nclass {name}(_InhBase{i}):\n    pass\n\n")
            for other in (f"InhA{i}", f"InhB{i}"):
                gt.append({"name": other, "pos": pos, "term": term, "src": src})
        elif pos == "result":
            name = f"r{i}"
            lines.append(f"def {name}() -> {src}: ...\n\n")
        elif pos == "ctor":
            name = f"CP{i}"
            lines.append(f"class {name}:\n    def __init__(self, x: {src}) -> None: ...\n\n")
        elif pos == "cattr":
            name = f"CA{i}"
            lines.append(f"class {name}:\n    x: {src}\n\n")
        elif pos == "iattr":
            name = f"IA{i}"
            lines.append(f"class {name}:\n    def __init__(self) -> None:\n        self.x: {src} = _any()\n\n")
        gt.append({"name": name, "pos": pos, "term": term, "src": src})
    files = {
        "src/pk/__init__.py": "",
        "src/pk/m1.py": "".join(lines),
        "src/pk/m2.py": "class Other:\n    pass\n",
    }
    return Case(cid=cid, files=files, opts=opts, meta={"gt": gt}, reach=REACH)


def gen(tier: str, seed: int) -> list[Case]:
    rng = rng_for(seed, PID, "gen")
    gated = gated_features()
    terms = depth2_terms()
    n_exh = len(terms)
    n_random = 600 if tier == "quick" else 60000
    for _ in range(n_random):
        terms.append(random_term(rng, rng.randint(3, 4)))
    items = []
    for t in terms:
        for pos in POSITIONS:
            if features(t, pos) & gated:
                continue
            if pos == "result" and t[0] == "None":
                continue
            items.append((t, pos))
    per = 900
    cases = []
    for ci, start in enumerate(range(0, len(items), per)):
        opts = ["-nc"] if (ci % 3 == 2) else []
        cases.append(build_case(f"c05-{ci}", items[start : start + per], opts))
    for c in cases:
        c.meta["n_exhaustive_terms"] = n_exh
    return cases


def expected_results(term):
    """Result position follows C07's rule: tuple annotation -> one result per element."""
    if term[0] == "tuple":
        return [tt.ref_nf(a) for a in term[1]]
    return [tt.ref_nf(term)]


def written_union_flaws(t) -> list[str]:
    """'unions to union with duplicates removed': a union that is WRITTEN in the stub has no member twice (by meaning), at every
    nesting depth.  (Whether a nullable type is written T? or union<T, Nothing?> is the tool's choice - it uses both - and the same
    by meaning; what is required of it is one spelling per meaning, see per_meaning.)"""
    out = []
    if t is None:
        return out
    if t.kind == "union":
        nfs = [tt.stub_nf(a) for a in t.args]
        if len({repr(n) for n in nfs}) < len(nfs):
            out.append("member-twice")
    for a in getattr(t, "args", None) or []:
        out += written_union_flaws(a)
    if t.kind == "callable":
        for p in [*t.params, *t.results]:
            out += written_union_flaws(p.type)
    return out


def make_judge(chk: Check):
    per_term: dict = {}
    per_text: dict = {}
    per_meaning: dict = {}

    def judge(case: Case, rec: dict, probe=None) -> list[Viol]:
        viols: list[Viol] = []
        ss = StubSet(rec["tree"])
        for e in ss.errors.values():
            chk.discarded[f"unparsable-stub:{e.rule}"] += 1
        byname = {}
        for _rel, m, d in ss.all_decls():
            if m.py_module == "pk.m1" and d.owner is None:
                byname[d.pyname] = d
        for g in case.meta["gt"]:
            d = byname.get(g["name"])
            pos, term = g["pos"], g["term"]
            sigkey = tt.signature(term)
            where = f"{pos}:{term[0]}"
            if d is None:
                chk.discarded["declaration-not-found"] += 1
                continue
            got_nfs = None
            if pos == "result":
                exp = expected_results(term)
                got = [tt.stub_nf(r.type) for r in d.results]
                if got != exp:
                    viols.append(Viol("result-type", where, {"annotation": g["src"], "expected": [tt.show_nf(x) for x in exp], "stub": [r.type.render() if r.type else None for r in d.results], "sig": sigkey}))
                if term[0] != "tuple" and len(got) == 1:
                    got_nfs = got[0]
            else:
                if pos == "inherited":
                    ms = [m for m in d.members if m.kind == "fun" and m.pyname == "m"]
                    ps = [p for p in (ms[0].params or []) if p.pyname == "x"] if len(ms) == 1 else []
                    st = ps[0].type if len(ps) == 1 else None
                elif pos == "param-among-others":
                    ps = [p for p in d.params or [] if p.pyname == "x"]
                    st = ps[0].type if len(ps) == 1 else None
                elif pos in ("param", "ctor"):
                    ps = d.params or []
                    st = ps[0].type if len(ps) == 1 else None
                else:
                    ms = [m for m in d.members if m.kind == "attr" and m.pyname == "x"]
                    st = ms[0].type if len(ms) == 1 else None
                got_nfs = tt.stub_nf(st)
                exp1 = tt.ref_nf(term)
                if got_nfs != exp1:
                    viols.append(Viol("type-mismatch", where, {"annotation": g["src"], "expected": tt.show_nf(exp1), "stub": st.render() if st else None, "sig": sigkey}))
            shown = [r.type for r in d.results] if pos == "result" else [st]
            for x in shown:
                for flaw in sorted(set(written_union_flaws(x))):
                    viols.append(Viol("written-union:" + flaw, where, {"annotation": g["src"], "stub": x.render() if x else None, "sig": sigkey}))
            chk.case_ok(f"{pos}:{sigkey}", ident=(pos, g["src"], bool(case.opts)))
            if got_nfs is not None:
                per_term.setdefault(g["src"], {})[pos if pos != "inherited" else f"inherited:{g['name'][:4]}"] = got_nfs
            if pos in ("param", "ctor") and st is not None and got_nfs is not None:
                # (the values of a literal type keep the order in which the annotation lists them: not a matter of spelling)
                spelled = re.sub(r"literal<([^<>]*)>", lambda m: "literal<" + ", ".join(sorted(m.group(1).split(", "))) + ">", st.render())
                per_meaning.setdefault((repr(got_nfs), bool(case.opts)), {}).setdefault(spelled, g["src"])
            if pos in ("param", "ctor", "param-among-others", "inherited") and st is not None:
                # the written form too: one annotation, one text, wherever (and however often) it is rendered
                per_text.setdefault((g["src"], bool(case.opts)), {})[pos if pos != "inherited" else f"inherited:{g['name'][:4]}"] = st.render()
            if tt.depth(term) >= 3:
                chk.sample({"position": pos, "annotation": g["src"], "stub": d.params[0].type.render() if pos in ("param", "ctor") and d.params and d.params[0].type else "..."}, limit=4)
        return viols

    judge.per_term = per_term
    judge.per_text = per_text
    judge.per_meaning = per_meaning
    return judge


def main(tier: str, seed: int) -> int:
    chk = Check(PID, tier, seed)
    cases = gen(tier, seed)
    judge = make_judge(chk)
    drive(chk, cases, judge, per_proc=1)
    # compositionality across positions: one annotation, one normal form
    npos = 0
    for src, d in judge.per_term.items():
        if len(d) >= 2:
            npos += 1
            if len({repr(v) for v in d.values()}) > 1:
                chk.violation(Viol("position-dependent", "positions", {"annotation": src, "forms": {k: tt.show_nf(v) for k, v in d.items()}}))
    for (src, _nc), d in judge.per_text.items():
        if len(set(d.values())) > 1:
            chk.violation(Viol("position-dependent-text", "parameter-positions", {"annotation": src, "texts": d}))
    # one meaning, one spelling: annotations with the same normal form (Optional[int] / Union[int, int, None] / int | None)
    # are written with the same text
    nmean = 0
    for (_nf, _nc), texts in judge.per_meaning.items():
        if len(texts) > 1:
            chk.violation(Viol("one-meaning-several-spellings", "parameter-positions", {"spellings": {t: a for t, a in sorted(texts.items())[:6]}}))
        nmean += 1
    chk.extra["meanings_compared_by_spelling"] = nmean
    chk.extra["terms_compared_across_positions"] = npos
    chk.extra["exhaustive_parts"] = f"{cases[0].meta['n_exhaustive_terms']} terms: all leaves, every unary constructor over every leaf, every binary constructor over the small leaf set squared"
    chk.extra["gated_features"] = sorted(gated_features())
    pj = make_judge(Check(PID, "probe", 0))
    chk.run_probes(
        lambda c, r, probe=None: pj(c, r),
        build_case=lambda f: build_case("probe:" + f["id"], [(tt.from_json(t), pos) for t, pos in f["probe"]["items"]], f["probe"].get("opts", [])),
    )
    chk.assumptions = [
        "outside the claimed grammar and not generated: variadic tuples, Type[...], Iterable/Iterator, Annotated, protocols",
        "class names used do not change under naming conversion (the declaration/reference mismatch is a recorded finding)",
    ]
    return chk.finish(
        rule="one case = one (annotation term, position) pair; distinct = distinct (position, constructor skeleton); all terms are non-trivial annotations",
        min_cases=1500 if tier == "quick" else 20000,
    )


def replay(path: str) -> int:
    return generic_replay(path, gen, make_judge)
