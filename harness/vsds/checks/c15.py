"""C15 -- the test-run flag alone controls whether test and docs directories are analysed.

Workload: package trees with test/, tests/, docs/ directories at any depth and look-alike names, every file holding
one function with a unique name token; each tree is run with and without -tr (directory enumeration order permuted by
M4).  Oracle: ground-truth file list vs. module ids / function names in the JSON and stub texts under both settings;
byte comparison of the stubs of unaffected modules.
"""

from __future__ import annotations

import json

from ..core import Check, Viol, drive, generic_replay, rng_for
from ..run import Case
from ..stubs import StubSet

PID = "C15"
REACH = ["get_api", "_get_nearest_init_dirs", "_run_stub_generator", "_get_mypy_asts"]

FILTERED = ["test", "tests", "docs"]
LOOKALIKES_DIR = ["testing", "mytests", "docs_old", "Tests", "Docs", "test_utils", "tests2", "doc", "contest", "latest", "TEST"]
LOOKALIKES_FILE = ["test_x", "tests", "docs", "test", "x_test", "conftest", "mytests", "Tests"]
PLAIN_DIR = ["core", "util", "io", "model"]


def build_tree(rng, idx: int):
    """Returns (files, gt) ; gt: list of {relpath, module_id, token, filtered}."""
    files = {}
    gt = []
    counter = [0]

    def add_module(dirparts: list, stem: str, filtered: bool, with_init: bool):
        counter[0] += 1
        token = f"fn_t{idx}_{counter[0]}_{stem.lower()}"
        rel = "/".join(["src", *dirparts, stem + ".py"])
        if rel in files:
            return
        cls = f"Cls{counter[0]}X{idx}"
        files[rel] = f'"""Module {stem}."""\n\n\ndef {token}(a: int = {counter[0]}) -> int:\n    """Doc."""\n    return a\n\n\nclass {cls}:\n    x: int = {counter[0]}\n\n    def m(self) -> str: ...\n'
        gt.append({"rel": rel, "module_id": "/".join([*dirparts, stem]), "token": token, "cls": cls, "filtered": filtered, "proper_package": with_init})

    def add_dir(dirparts: list, depth: int, filtered: bool, proper: bool):
        kids = []
        if depth < 3:
            if rng.random() < 0.8:
                kids.append((rng.choice(FILTERED), True))
            if rng.random() < 0.7:
                kids.append((rng.choice(LOOKALIKES_DIR), False))
            if rng.random() < 0.6:
                kids.append((rng.choice(PLAIN_DIR), False))
        seen = set()
        kids2 = []
        for name, is_filtered_dir in kids:
            if name.lower() in seen or name == dirparts[-1]:
                continue  # keep names distinct; a package named like its parent is a recorded C01 finding
            seen.add(name.lower())
            kids2.append((name, is_filtered_dir))
        # modules in this directory: never named like a sibling directory or like the directory itself
        names = rng.sample(["alpha", "beta", "gamma", "delta"], rng.randint(1, 2)) + rng.sample(LOOKALIKES_FILE, rng.randint(0, 2))
        for n in names:
            if n.lower() in seen or n == dirparts[-1]:
                continue
            add_module(dirparts, n, filtered, proper)
        if proper:
            files["/".join(["src", *dirparts, "__init__.py"])] = ""
        for name, is_filtered_dir in kids2:
            add_dir([*dirparts, name], depth + 1, filtered or is_filtered_dir, proper)

    add_dir(["pk"], 0, False, True)
    if not any(not g["filtered"] for g in gt):
        add_module(["pk"], "always", False, True)
    # a filtered package whose __init__ declares things that a regular module imports (the import must not drag the
    # package's declarations into the output without the flag)
    fdirs = sorted({"/".join(g["rel"].split("/")[1:-1]) for g in gt if g["filtered"] and g["rel"].split("/")[-2] in FILTERED})
    if fdirs:
        d = rng.choice(fdirs)
        tok = f"fixture_t{idx}_init"
        cls = f"FixtureBox{idx}"
        files[f"src/{d}/__init__.py"] = (
            f'"""Test support."""\n\n\ndef {tok}(a: int = 0) -> int:\n    return a\n\n\nclass {cls}:\n    held: int = 0\n'
            # class hierarchies that share their names with hierarchies of the regular code but not their nature (an ordinary
            # class here, an exception there, and the other way round)
            f"\n\nclass Failure{idx}:\n    pass\n\n\nclass ExpectedFailure{idx}(Failure{idx}):\n    pass\n\n\nclass Record{idx}(Exception):\n    pass\n\n\nclass DiskRecord{idx}(Record{idx}):\n    pass\n"
        )
        files[f"src/pk/zz_errors_{idx}.py"] = (
            f"class Failure{idx}(Exception):\n    pass\n\n\nclass ParseFailure{idx}(Failure{idx}):\n    def where(self) -> int: ...\n\n\n"
            f"class Record{idx}:\n    def key(self) -> int: ...\n\n\nclass AuditRecord{idx}(Record{idx}):\n    def author(self) -> str: ...\n\n\ndef fn_errors_{idx}() -> int:\n    return 1\n"
        )
        gt.append({"rel": f"src/pk/zz_errors_{idx}.py", "module_id": f"pk/zz_errors_{idx}", "token": f"fn_errors_{idx}", "cls": f"AuditRecord{idx}", "filtered": False, "proper_package": True})
        gt.append({"rel": f"src/{d}/__init__.py", "module_id": d, "token": tok, "cls": cls, "filtered": True, "proper_package": True, "is_init": True})
        user = f"uses_fixture_{idx}"
        files[f"src/pk/{user}.py"] = f"from {d.replace('/', '.')} import {tok}, {cls}\n\n\ndef fn_user_{idx}(x: int = 1) -> int:\n    return {tok}(x)\n\n\nclass ClsUser{idx}:\n    y: int = 2\n"
        gt.append({"rel": f"src/pk/{user}.py", "module_id": f"pk/{user}", "token": f"fn_user_{idx}", "cls": f"ClsUser{idx}", "filtered": False, "proper_package": True})
    # regular modules (in the package root and in a sub-package) that import from plain MODULES inside filtered
    # directories, directly and through another filtered module: the type checker loads those modules, the tool must not
    fmods = [g for g in gt if g["filtered"] and not g.get("is_init") and g["proper_package"]]
    if fmods:
        for k, g in enumerate(rng.sample(fmods, min(2, len(fmods)))):
            dotted = g["module_id"].replace("/", ".")
            where = ["pk"] if k == 0 else ["pk", "regular_sub"]
            user = f"imports_filtered_{idx}_{k}"
            if k == 1:
                files.setdefault("src/pk/regular_sub/__init__.py", "")
            files["/".join(["src", *where, user + ".py"])] = f"from {dotted} import {g['token']}, {g['cls']}\n\n\ndef fn_imp_{idx}_{k}(x: {g['cls']} | None = None) -> int:\n    return {g['token']}(1)\n\n\nclass ClsImp{idx}x{k}({g['cls']}):\n    z: int = 3\n"
            gt.append({"rel": "/".join(["src", *where, user + ".py"]), "module_id": "/".join([*where, user]), "token": f"fn_imp_{idx}_{k}", "cls": f"ClsImp{idx}x{k}", "filtered": False, "proper_package": True})
    # a class of a filtered file that carries the name of a regular class (a test double), both instantiated somewhere; the
    # regular class is subclassed in regular modules that get it through the module or a wildcard import: what the flag adds
    # to the analysis must not change what these modules say about their base class
    pdirs = sorted({"/".join(g["rel"].split("/")[1:-1]) for g in gt if g["filtered"] and g["proper_package"] and not g.get("is_init")})
    if pdirs and idx % 2 == 0:
        d = pdirs[0]
        files[f"src/{d}/zz_doubles_{idx}.py"] = f"class RealBase{idx}:\n    def fake(self) -> int:\n        return 0\n\n\n_double_{idx} = RealBase{idx}()\n\n\ndef fn_double_{idx}() -> int:\n    return RealBase{idx}().fake()\n\n\nclass DoubleOnly{idx}:\n    x: int = 1\n"
        gt.append({"rel": f"src/{d}/zz_doubles_{idx}.py", "module_id": f"{d}/zz_doubles_{idx}", "token": f"fn_double_{idx}", "cls": f"DoubleOnly{idx}", "filtered": True, "proper_package": True})
        files[f"src/pk/zz_real_{idx}.py"] = f"class RealBase{idx}:\n    def real(self) -> int:\n        return 1\n\n\ndef fn_real_{idx}() -> RealBase{idx}:\n    return RealBase{idx}()\n"
        gt.append({"rel": f"src/pk/zz_real_{idx}.py", "module_id": f"pk/zz_real_{idx}", "token": f"fn_real_{idx}", "cls": f"RealBase{idx}", "filtered": False, "proper_package": True})
        files[f"src/pk/derives_a_{idx}.py"] = f"import pk.zz_real_{idx} as zr\n\n\nclass ViaModule{idx}(zr.RealBase{idx}):\n    pass\n\n\ndef fn_via_module_{idx}() -> int:\n    return 1\n"
        gt.append({"rel": f"src/pk/derives_a_{idx}.py", "module_id": f"pk/derives_a_{idx}", "token": f"fn_via_module_{idx}", "cls": f"ViaModule{idx}", "filtered": False, "proper_package": True})
        files[f"src/pk/derives_b_{idx}.py"] = f"from .zz_real_{idx} import *\n\n\nclass ViaStar{idx}(RealBase{idx}):\n    pass\n\n\ndef fn_via_star_{idx}() -> int:\n    return 1\n"
        gt.append({"rel": f"src/pk/derives_b_{idx}.py", "module_id": f"pk/derives_b_{idx}", "token": f"fn_via_star_{idx}", "cls": f"ViaStar{idx}", "filtered": False, "proper_package": True})
    return files, gt


def gen(tier: str, seed: int) -> list[Case]:
    rng = rng_for(seed, PID, "gen")
    n = 12 if tier == "quick" else 700
    cases = []
    for i in range(n):
        files, gt = build_tree(rng, i)
        style = ["plaintext", "numpydoc", "google", "rest"][i % 4]
        # "the flag alone": every other option is the same in both runs of the pair, and takes all its values over the pairs
        other = (["-nc"] if (i // 2) % 2 else []) + (["-tsp", "docstring"] if (i // 3) % 2 else []) + (["-tsw", "ignore"] if (i // 4) % 2 else [])
        for tr in (False, True):
            cases.append(
                Case(
                    cid=f"c15-{i}-{'tr' if tr else 'no'}",
                    files=files,
                    opts=["--docstyle", style, *other] + (["-tr"] if tr else []),
                    perturb={"dir_seed": seed * 1000 + i * 2 + int(tr), "dir_mode": ["shuffle", "reversed", "sorted", "init_last"][(i + int(tr)) % 4]},
                    meta={"gt": gt, "pair": i, "tr": tr},
                    reach=REACH,
                ),
            )
    # the source directory is no package itself: one regular package next to test / docs packages (siblings, not children)
    for j, sibs in enumerate([("tests", "docs"), ("test",), ("docs", "tests", "testing")][: 2 if tier == "quick" else 3]):
        files, gt = {}, []

        def put(dirparts, stem, filtered, k):
            tok, cls = f"fn_s{j}_{k}_{stem}", f"ClsS{j}x{k}"
            rel = "/".join(["src", "proj", *dirparts, stem + ".py"])
            files[rel] = f"def {tok}(a: int = {k}) -> int:\n    return a\n\n\nclass {cls}:\n    x: int = {k}\n\n    def m(self) -> str: ...\n"
            gt.append({"rel": rel, "module_id": "/".join([*dirparts, stem]), "token": tok, "cls": cls, "filtered": filtered, "proper_package": True})

        files["src/proj/mainpkg/__init__.py"] = ""
        files["src/proj/mainpkg/inner/__init__.py"] = ""
        put(["mainpkg"], "core", False, 1)
        put(["mainpkg", "inner"], "deep", False, 2)
        for k, sib in enumerate(sibs):
            files[f"src/proj/{sib}/__init__.py"] = ""
            put([sib], f"{'test_' if sib != 'docs' else 'conf_'}util{k}", sib in FILTERED, 3 + k)
        for tr in (False, True):
            c = Case(cid=f"c15-siblings{j}-{'tr' if tr else 'no'}", files=files, opts=["--docstyle", ["plaintext", "numpydoc", "google"][j]] + (["-tr"] if tr else []), meta={"gt": gt, "pair": f"s{j}", "tr": tr}, reach=REACH)
            c.src = "src/proj"
            cases.append(c)
    # the analysed directory ITSELF is called test / tests / docs: given with -s, or the only package below the directory
    # given with -s.  Every file lies below a directory of such a name: nothing to analyse without the flag, all of it with it
    for j, (rootname, via_parent) in enumerate([("docs", False), ("tests", True), ("test", True), ("tests", False)][: 3 if tier == "quick" else 4]):
        files, gt = {}, []
        base = ["projdir", rootname] if via_parent else [rootname]
        for k, (dirparts, stem) in enumerate([([], "conf_mod"), (["inner"], "deep_mod"), (["inner", "util"], "deeper_mod")]):
            tok, cls = f"fn_r{j}_{k}_{stem}", f"ClsR{j}x{k}"
            for q in range(len(dirparts) + 1):
                files["/".join(["src", *base, *dirparts[:q], "__init__.py"])] = ""
            rel = "/".join(["src", *base, *dirparts, stem + ".py"])
            files[rel] = f"def {tok}(a: int = {k}) -> int:\n    return a\n\n\nclass {cls}:\n    x: int = {k}\n\n    def m(self) -> str: ...\n"
            gt.append({"rel": rel, "module_id": "/".join([rootname, *dirparts, stem]), "token": tok, "cls": cls, "filtered": True, "proper_package": True})
        for tr in (False, True):
            c = Case(cid=f"c15-root-named-{rootname}{'-via-parent' if via_parent else ''}-{'tr' if tr else 'no'}", files=files, opts=["--docstyle", ["plaintext", "numpydoc", "google", "rest"][j]] + (["-tr"] if tr else []), meta={"gt": gt, "pair": f"r{j}", "tr": tr}, reach=REACH)
            c.src = "src/" + "/".join(base[:-1] if via_parent else base)
            cases.append(c)
    # packages without ground truth (C01's form library: tests/ and docs/ directories inside, every declaration form
    # outside): only the relation between the two runs is judged
    from ..core import gated_features
    from . import c01

    for i in range(2 if tier == "quick" else 40):
        ks = c01.kitchen_sink(rng_for(seed, PID, "kitchen-sink", i), gated_features(), 230 + i)
        for tr in (False, True):
            cases.append(Case(cid=f"c15-kitchen{i}-{'tr' if tr else 'no'}", files=ks, opts=["--docstyle", ["numpydoc", "plaintext"][i % 2]] + (["-nc"] if i % 2 else []) + (["-tr"] if tr else []), meta={"gt": [], "pair": f"k{i}", "tr": tr}, reach=REACH))
    return cases


def make_judge(chk: Check):
    store: dict = {}

    def judge(case: Case, rec: dict, probe=None) -> list[Viol]:
        viols: list[Viol] = []
        gt = case.meta["gt"]
        tr = case.meta["tr"]
        jf = [k for k in rec["tree"] if k.endswith("__api.json")]
        api = json.loads(rec["tree"][jf[0]]) if jf else {"modules": [], "functions": []}
        fn_names = {f["name"] for f in api.get("functions", [])}
        mod_ids = {m["id"] for m in api.get("modules", [])}
        # declarations the stubs contain: functions, and classes that were analysed (a class that regular code merely
        # USES gets a bodyless placeholder 'class X' without constructor parentheses, like a class of another library;
        # that is a consequence of the reference in the regular file, not a contribution of the filtered file)
        ss = StubSet(rec["tree"])
        for e in ss.errors.values():
            chk.discarded[f"unparsable-stub:{e.rule}"] += 1
        declared = set()
        for _rel, _m, d in ss.all_decls():
            if d.kind == "fun" or (d.kind == "class" and (d.params is not None or d.members)):
                declared.add(d.pyname)
        for g in gt:
            kind = _dirkind(g["rel"])
            in_json = g["token"] in fn_names
            in_stub = g["token"] in declared or g["cls"] in declared
            if g["filtered"] and not tr:
                if in_json or (g["module_id"] in mod_ids and not g.get("is_init")) or (g.get("is_init") and any(c["id"].startswith(g["module_id"] + "/") for c in api.get("classes", []))):
                    viols.append(Viol("filtered-file-in-json", kind, {"file": g["rel"], "flag": tr}))
                if in_stub:
                    viols.append(Viol("filtered-file-in-stubs", kind, {"file": g["rel"], "flag": tr}))
            elif g.get("is_init") and tr:
                pass  # what an __init__ declares is inventoried under the package id; judged without the flag only
            else:
                if not in_json:
                    viols.append(Viol("file-does-not-contribute", kind, {"file": g["rel"], "flag": tr, "filtered_dir": g["filtered"]}))
                elif not in_stub:
                    viols.append(Viol("file-missing-from-stubs", kind, {"file": g["rel"], "flag": tr}))
            chk.case_ok(f"{kind}:{'tr' if tr else 'no'}:{g['rel'].count('/')}", ident=(case.cid, g["rel"]))
        chk.counters["dir_permutations_seen"] += rec.get("dir_perm", 0)
        pair = case.meta["pair"]
        store.setdefault(pair, {})[tr] = rec["tree"]
        if len(store[pair]) == 2:
            a, b = store[pair][False], store[pair][True]
            # whatever is generated without the flag comes from files outside test/docs directories: the flag makes
            # no difference to it (stubs of classes of other libraries included)
            for k in sorted(a):
                # (a placeholder for a class of a filtered file that regular code uses becomes the real stub with the flag)
                if k.endswith(".sdsstub") and not any(part in FILTERED for part in k.split("/")):
                    if b.get(k) != a[k]:
                        viols.append(Viol("flag-changes-unaffected-stub", "any-stub-of-the-run-without-flag", {"stub": k, "in_flag_run": k in b}))
                    chk.case_ok(None)
            unaffected = [g for g in gt if not g["filtered"]]
            for g in unaffected:
                # stub file of this module: same relative path in both trees
                mid = g["module_id"]
                cand = [k for k in a if k.endswith(".sdsstub") and k.startswith(mid + "/")]
                for k in cand:
                    if b.get(k) != a[k]:
                        viols.append(Viol("flag-changes-unaffected-stub", _dirkind(g["rel"]), {"stub": k}))
                    chk.case_ok(None)
            if any(k.endswith(".json") for k in a):
              chk.sample({"pair": pair, "files": [g["rel"] for g in gt][:12], "json_modules_without_flag": sorted(json.loads(a[[k for k in a if k.endswith('.json')][0]])["modules"][i]["id"] for i in range(min(6, len(json.loads(a[[k for k in a if k.endswith('.json')][0]])["modules"]))))}, limit=2)
            del store[pair]
        return viols

    return judge


def _dirkind(rel: str) -> str:
    parts = rel.split("/")[2:-1]
    stem = rel.split("/")[-1][:-3]
    f = [p for p in parts if p in FILTERED]
    look = [p for p in parts if p in LOOKALIKES_DIR]
    k = "in-" + f[0] if f else ("lookalike-dir" if look else "plain-dir")
    if stem in LOOKALIKES_FILE:
        k += "+lookalike-file"
    return k


def main(tier: str, seed: int) -> int:
    chk = Check(PID, tier, seed)
    cases = gen(tier, seed)
    judge = make_judge(chk)
    drive(chk, cases, judge, per_proc=2)
    chk.assumptions = [
        "regular modules may import and use classes / functions of files in test/docs directories (never re-export them); a class that is merely used gets a bodyless placeholder 'class X' like a class of another library - that is attributed to the using file, not counted as a contribution of the filtered file; analysed classes are recognised by their constructor parentheses / members",
        "every directory of the tree is a proper package (has __init__.py)",
        "the workspace path itself contains no part named test, tests or docs (the tool filters on absolute path parts)",
    ]
    return chk.finish(
        rule="one case = one Python file judged under one flag value (plus one stub comparison per unaffected module); distinct = (directory kind incl. look-alikes, flag, depth); all non-trivial",
        min_cases=100 if tier == "quick" else 1500,
    )


def replay(path: str) -> int:
    return generic_replay(path, gen, make_judge)
