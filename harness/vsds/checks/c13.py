"""C13 -- docstring text reaches the right element intact, whatever the style.

Workload: a style-independent doc model (summary, body lines, per-parameter / per-result / per-attribute descriptions,
examples), every description line carrying a unique token, rendered as NumPy, Google, reST or plain text, with
functions, classes, constructors, methods and attributes in random order (the one-entry docstring cache sees many
query sequences).  Oracle: token search over the documentation comments the recogniser attaches to each element
(docs_ref), plus the style relation (same model under the three structured styles gives the same comments).
Supplementary monitor M6: cache coherence of DocstringParser.__get_cached_docstring.
"""

from __future__ import annotations

import re

from .. import sds
from ..core import Check, Viol, drive, gated_features, generic_replay, rng_for
from ..run import Case
from ..stubs import StubSet

PID = "C13"
REACH = [
    "DocstringParser._get_griffe_node",
    "DocstringParser.__get_cached_docstring",
    "DocstringParser.get_class_documentation",
    "DocstringParser.get_function_documentation",
    "DocstringParser.get_parameter_documentation",
    "DocstringParser.get_attribute_documentation",
    "DocstringParser.get_result_documentation",
    "PlaintextDocstringParser.get_function_documentation",
    "get_full_docstring",
    "StubsStringGenerator._create_sds_docstring",
    "MyPyAstVisitor.enter_moduledef",
]
STYLES = ["numpydoc", "google", "rest", "plaintext"]

M6_PRE = r'''
import safeds_stubgen.docstring_parsing._docstring_parser as dp
cls = dp.DocstringParser
name = "_DocstringParser__get_cached_docstring"
orig = getattr(cls, name)
hist = rec["extra"].setdefault("m6", {"queries": 0, "incoherent": [], "transitions": {}, "attached": True})
state = {"prev": None}
def kind_of(q):
    last = q.split(".")[-1]
    if last == "__init__": return "ctor"
    if last[:1].isupper(): return "class"
    return "func"
def wrapped(self, qname):
    res = orig(self, qname)
    hist["queries"] += 1
    try:
        node = self._get_griffe_node(qname)
        fresh = node.docstring if node is not None else None
        if (fresh is None) != (res is None) or (fresh is not None and fresh.value != res.value):
            if len(hist["incoherent"]) < 5:
                hist["incoherent"].append([state["prev"], qname])
    except Exception as e:
        pass
    prev = state["prev"]
    if prev is not None:
        same_owner = prev.rsplit(".", 1)[0] == qname.rsplit(".", 1)[0]
        same_name = prev.rsplit(".", 1)[-1] == qname.rsplit(".", 1)[-1] and prev != qname
        t = kind_of(prev) + "->" + kind_of(qname) + (":same-owner" if same_owner else ":other-owner") + (":same-name" if same_name else "")
        hist["transitions"][t] = hist["transitions"].get(t, 0) + 1
    state["prev"] = qname
    return res
setattr(cls, name, wrapped)
'''


class Tok:
    def __init__(self, prefix: str) -> None:
        self.prefix = prefix
        self.n = 0

    def line(self, rng, role: str) -> str:
        self.n += 1
        words = ["gives", "the", "value", "for", "when", "a", "list", "of", "items", "is", "used", "by", "default", "it"]
        w = " ".join(rng.sample(words, rng.randint(1, 4)))
        return f"D{self.prefix}x{self.n}{role} {w}".strip()


class DocModel:
    """Doc model of one element."""

    def __init__(self) -> None:
        self.summary: str | None = None
        self.body: list[str] = []
        self.params: list[tuple[str, str, list[str]]] = []  # name, type, description lines
        self.result: tuple[str, list[str]] | None = None  # type, description lines
        self.attrs: list[tuple[str, str, list[str]]] = []
        self.examples: list[list[str]] = []  # code lines (without the >>> prompt)

    def render(self, style: str) -> str:
        if self.summary is None:
            return ""
        out = [self.summary]
        if self.body:
            out += ["", *self.body]
        if style == "plaintext":
            # anything goes in plain text: keep a little structure so the text is not trivial
            for n, _t, d in self.params:
                out += ["", f"{n} - {d[0]}", *d[1:]]
            return "\n".join(out) + "\n"
        if style == "numpydoc":
            if self.params:
                out += ["", "Parameters", "----------"]
                for n, t, d in self.params:
                    out += [f"{n} : {t}", *[f"    {x}" for x in d]]
            if self.attrs:
                out += ["", "Attributes", "----------"]
                for n, t, d in self.attrs:
                    out += [f"{n} : {t}", *[f"    {x}" for x in d]]
            early = self.examples[:1] if len(self.examples) > 1 else []
            for ex in early:
                out += ["", "Examples", "--------", *[(">>> " if i == 0 else "... ") + c for i, c in enumerate(ex)]]
            if self.result:
                out += ["", "Returns", "-------", self.result[0], *[f"    {x}" for x in self.result[1]]]
            for ex in self.examples[len(early):]:
                out += ["", "Examples", "--------", *[(">>> " if i == 0 else "... ") + c for i, c in enumerate(ex)]]
        elif style == "google":
            if self.params:
                out += ["", "Args:"]
                for n, t, d in self.params:
                    out += [f"    {n} ({t}): {d[0]}", *[f"        {x}" for x in d[1:]]]
            if self.attrs:
                out += ["", "Attributes:"]
                for n, t, d in self.attrs:
                    out += [f"    {n} ({t}): {d[0]}", *[f"        {x}" for x in d[1:]]]
            early = self.examples[:1] if len(self.examples) > 1 else []
            for ex in early:
                out += ["", "Examples:", *["    " + (">>> " if i == 0 else "... ") + c for i, c in enumerate(ex)]]
            if self.result:
                out += ["", "Returns:", f"    {self.result[0]}: {self.result[1][0]}", *[f"        {x}" for x in self.result[1][1:]]]
            for ex in self.examples[len(early):]:
                out += ["", "Examples:", *["    " + (">>> " if i == 0 else "... ") + c for i, c in enumerate(ex)]]
        elif style == "rest":
            if self.params or self.result or self.attrs:
                out += [""]
            for n, t, d in self.params:
                out += [f":param {n}: {d[0]}", *[f"    {x}" for x in d[1:]], f":type {n}: {t}"]
            for n, t, d in self.attrs:
                out += [f":var {n}: {d[0]}", *[f"    {x}" for x in d[1:]], f":vartype {n}: {t}"]
            if self.result:
                out += [f":returns: {self.result[1][0]}", *[f"    {x}" for x in self.result[1][1:]], f":rtype: {self.result[0]}"]
        return "\n".join(out) + "\n"


def pydoc(text: str, indent: str) -> str:
    if not text:
        return ""
    lines = text.split("\n")
    body = "\n".join((indent + ln if ln else "") for ln in lines)
    return f'{indent}"""{body[len(indent):]}{indent}"""\n'


def build_module(rng, tok: Tok, gated: set, common_only: bool, n_elems: int, name_tag: str | None = None):
    """Returns (source renderer by style, ground truth by element path).  ``name_tag`` replaces the module's own tag in
    the element names (two modules built with one tag share element names, never documentation tokens)."""
    tag = name_tag or tok.prefix
    elems = []  # (kind, name, model, extra)
    gt = {}

    def model(kind: str, params: list[str], with_result: bool, attrs: list[str] = ()) -> DocModel:
        m = DocModel()
        if rng.random() < 0.12:
            return m  # no docstring at all
        m.summary = tok.line(rng, "s")
        for _ in range(rng.randint(0, 3)):
            m.body.append(tok.line(rng, "b"))
        for p in params:
            if rng.random() < 0.85:
                lines = [tok.line(rng, "p")] + ([tok.line(rng, "q")] if (not common_only and rng.random() < 0.4) else [])
                m.params.append((p, "int", lines))
        if with_result and rng.random() < 0.8:
            m.result = ("int", [tok.line(rng, "r")] + ([tok.line(rng, "t")] if (not common_only and rng.random() < 0.3) else []))
        if not common_only:
            for a in attrs:
                if rng.random() < 0.8:
                    m.attrs.append((a, "int", [tok.line(rng, "a")]))
            if kind in ("func", "class", "method") and rng.random() < 0.3:
                m.examples.append([f"call_{tok.prefix}_{tok.n}(1)", "more(2)"][: rng.randint(1, 2)])
                if rng.random() < 0.5:
                    # a second Examples section (the first one stands before the Returns section, this one at the end)
                    m.examples.append([f"again_{tok.prefix}_{tok.n}(3)", f"and_more_{tok.n}(4)"][: rng.randint(1, 2)])
        return m

    method_names = ["run", "stop", "reset"]
    for i in range(n_elems):
        kind = rng.choice(["func", "func", "class", "class"])
        if kind == "func":
            params = [f"p{j}" for j in range(rng.randint(0, 3))]
            elems.append(("func", f"fn{tag}x{i}", model("func", params, True), {"params": params}))
        else:
            cname = f"Kl{tag}x{i}"
            cparams = [f"c{j}" for j in range(rng.randint(0, 2))]
            attrs = [f"at{j}" for j in range(rng.randint(0, 2))]
            doc_on_init = rng.random() < 0.3 and not common_only
            cm = model("class", [] if doc_on_init else cparams, False, attrs)
            im = model("ctor", cparams, False) if doc_on_init else DocModel()
            methods = []
            for mn in rng.sample(method_names, rng.randint(0, 3)):
                mp = [f"m{j}" for j in range(rng.randint(0, 2))]
                methods.append((mn, mp, model("method", mp, True)))
            nested = None
            if rng.random() < 0.35:
                # a documented class inside the class, with attributes of the same names as the outer class and a method
                nattrs = [f"at{j}" for j in range(rng.randint(1, 2))]
                nested = (f"In{tag}x{i}", nattrs, model("class", [], False, nattrs), [("run", ["m0"], model("method", ["m0"], True))])
            elems.append(("class", cname, cm, {"cparams": cparams, "attrs": attrs, "init": im, "methods": methods, "has_ctor": bool(cparams) or doc_on_init or rng.random() < 0.5, "nested": nested, "abstract": rng.random() < 0.25}))
    mod_model = DocModel()
    mod_model.summary = tok.line(rng, "m")
    mod_model.body = [tok.line(rng, "n")]

    extra_strings = [tok.line(rng, "z"), tok.line(rng, "z")]

    def render(style: str) -> str:
        out = [pydoc(mod_model.render("plaintext" if True else style), ""), "\n"]
        # further bare string statements at module level (a documented constant, a block used as comment): they are no
        # module docstring and belong to no element of the stubs
        out.append(f'from abc import ABC\n\nDEFAULT_{tag.upper()} = 4\n"""{extra_strings[0]}"""\n\n')
        for kind, name, m, ex in elems:
            if kind == "func":
                out.append(f"def {name}({', '.join(p + ': int' for p in ex['params'])}) -> int:\n{pydoc(m.render(style), '    ')}    return 1\n\n\n")
            else:
                # (an abstract class is written without constructor; what its docstring says about the parameters stays)
                out.append(f"class {name}{'(ABC)' if ex.get('abstract') else ''}:\n{pydoc(m.render(style), '    ')}")
                for a in ex["attrs"]:
                    out.append(f"    {a}: int = 0\n")
                if ex.get("nested"):
                    iname, nattrs, nmodel, nmeths = ex["nested"]
                    out.append(f"\n    class {iname}:\n{pydoc(nmodel.render(style), '        ')}")
                    for a in nattrs:
                        out.append(f"        {a}: int = 0\n")
                    for mn, mp, mm in nmeths:
                        out.append(f"\n        def {mn}(self{''.join(', ' + p + ': int' for p in mp)}) -> int:\n{pydoc(mm.render(style), '            ')}            return 1\n")
                if ex["has_ctor"]:
                    out.append(f"\n    def __init__(self{''.join(', ' + p + ': int' for p in ex['cparams'])}) -> None:\n{pydoc(ex['init'].render(style), '        ')}        self.made = 1\n")
                for mn, mp, mm in ex["methods"]:
                    out.append(f"\n    def {mn}(self{''.join(', ' + p + ': int' for p in mp)}) -> int:\n{pydoc(mm.render(style), '        ')}        return 1\n")
                if not ex["attrs"] and not ex["has_ctor"] and not ex["methods"] and m.summary is None and not ex.get("nested"):
                    out.append("    pass\n")
                out.append("\n\n")
        return "".join(out)

    trailer = f'\n"""\n{extra_strings[1]}\n"""\n'
    _render_inner = render

    def render(style: str) -> str:  # noqa: F811 - the trailing block comes after every declaration
        return _render_inner(style) + trailer

    for kind, name, m, ex in elems:
        if kind == "func":
            gt[name] = {"kind": "function", "model": m}
        else:
            gt[name] = {"kind": "class", "model": m, "init": ex["init"], "cparams": ex["cparams"]}
            for a in ex["attrs"]:
                gt[f"{name}/{a}"] = {"kind": "attribute", "owner": name, "attr": a}
            for mn, _mp, mm in ex["methods"]:
                gt[f"{name}/{mn}"] = {"kind": "method", "model": mm}
            if ex.get("nested"):
                iname, nattrs, nmodel, nmeths = ex["nested"]
                gt[f"{name}/{iname}"] = {"kind": "class", "model": nmodel, "init": DocModel(), "cparams": []}
                for a in nattrs:
                    gt[f"{name}/{iname}/{a}"] = {"kind": "attribute", "owner": f"{name}/{iname}", "attr": a}
                for mn, _mp, mm in nmeths:
                    gt[f"{name}/{iname}/{mn}"] = {"kind": "method", "model": mm}
    gt["<module>"] = {"kind": "module", "model": mod_model}
    return render, gt


def scenario_module(rng, tok: Tok):
    """Deterministic query histories aimed at the one-entry cache: equal last segments in consecutive queries
    (methods of consecutive classes without constructor, a module function of the same name right after, two
    constructors in a row, a class and a function that differ only in the owner)."""
    def fm(params, result=True):
        m = DocModel()
        m.summary = tok.line(rng, "s")
        m.body = [tok.line(rng, "b")]
        m.params = [(p, "int", [tok.line(rng, "p")]) for p in params]
        if result:
            m.result = ("int", [tok.line(rng, "r")])
        return m

    dc_doc = fm([], False)
    dc_last = fm(["other"])
    a_run, b_run, f_run = fm(["m0"]), fm(["m0"]), fm(["m0"])
    c_doc, d_doc = fm(["c0"], False), fm(["c0"], False)
    c_run, d_run = fm(["m0"]), fm(["m0"])
    gt = {
        "ScnFirst": {"kind": "class", "model": DocModel(), "init": DocModel(), "cparams": []},
        "ScnFirst/run": {"kind": "method", "model": a_run},
        "ScnSecond": {"kind": "class", "model": DocModel(), "init": DocModel(), "cparams": []},
        "ScnSecond/run": {"kind": "method", "model": b_run},
        "run": {"kind": "function", "model": f_run},
        "ScnThird": {"kind": "class", "model": c_doc, "init": DocModel(), "cparams": ["c0"]},
        "ScnThird/run": {"kind": "method", "model": c_run},
        "ScnFourth": {"kind": "class", "model": d_doc, "init": DocModel(), "cparams": ["c0"]},
        "ScnFourth/run": {"kind": "method", "model": d_run},
        "ScnOrdered": {"kind": "class", "model": dc_doc, "init": DocModel(), "cparams": []},
        "ScnOrdered/compare_with": {"kind": "method", "model": dc_last},
        "<module>": {"kind": "module", "model": DocModel()},
    }
    # several results, named and unnamed ones mixed (NumPy style only): every description belongs to the result of its
    # own position, whatever name that result gets in the signature
    mixed = [("first", "int", tok.line(rng, "r")), (None, "str", tok.line(rng, "r")), ("third", "bool", tok.line(rng, "r")), (None, "float", tok.line(rng, "r"))]
    exp, unnamed = [], 0
    for nm_, _t, ln in mixed:
        if nm_ is None:
            unnamed += 1
        exp.append((ln, f"@result {nm_ or 'result_' + str(unnamed)} "))
    gt["mixed_results"] = {"kind": "raw", "expected": {"numpydoc": exp}}
    # fewer documented results than annotated ones (each documented type occurs among the annotated ones)
    few = [("count", "int", tok.line(rng, "r")), ("label", "str", tok.line(rng, "r"))]
    gt["fewer_documented"] = {"kind": "raw", "expected": {"numpydoc": [(ln, f"@result {nm_} ") for nm_, _t, ln in few], "rest": [(few[0][2], "@result result_1 ")]}}
    few_docs = {
        "numpydoc": "Fewer.\n\nReturns\n-------\n" + "".join(f"{nm_} : {t}\n    {ln}\n" for nm_, t, ln in few),
        "rest": f"Fewer.\n\n:returns: {few[0][2]}\n:rtype: int\n",
    }
    mixed_doc = "Mixed.\n\nReturns\n-------\n" + "".join((f"{nm_} : {t}\n" if nm_ else f"{t}\n") + f"    {ln}\n" for nm_, t, ln in mixed)

    def render(style: str) -> str:
        def meth(m, ind):
            return f"{ind}def run(self, m0: int) -> int:\n{pydoc(m.render(style), ind + '    ')}{ind}    return 1\n"

        return (
            f"class ScnFirst:\n{meth(a_run, '    ')}\n\nclass ScnSecond:\n{meth(b_run, '    ')}\n\n"
            f"def run(m0: int) -> int:\n{pydoc(f_run.render(style), '    ')}    return 1\n\n\n"
            f"class ScnThird:\n{pydoc(c_doc.render(style), '    ')}\n    def __init__(self, c0: int) -> None:\n        self.v = c0\n\n{meth(c_run, '    ')}\n\n"
            f"class ScnFourth:\n{pydoc(d_doc.render(style), '    ')}\n    def __init__(self, c0: int) -> None:\n        self.v = c0\n\n{meth(d_run, '    ')}\n\n"
            # the comparison methods of an ordered dataclass exist for the type checker only (no source, no docstring);
            # they are analysed right after the last documented method
            f"import dataclasses\n\n\n@dataclasses.dataclass(order=True)\nclass ScnOrdered:\n{pydoc(dc_doc.render(style), '    ')}\n    size: int = 0\n\n"
            f"    def __init__(self, size: int = 0) -> None:\n        self.size = size\n\n"
            f"    def compare_with(self, other: int) -> int:\n{pydoc(dc_last.render(style), '        ')}        return other\n"
            + f"\n\ndef fewer_documented() -> tuple[int, str, float]:\n{pydoc(few_docs[style], '    ') if style in few_docs else ''}    return 1, 'a', 1.0\n"
            + (f"\n\ndef mixed_results() -> tuple[int, str, bool, float]:\n{pydoc(mixed_doc, '    ')}    return 1, 'a', True, 1.0\n" if style == "numpydoc" else "\n\ndef mixed_results() -> tuple[int, str, bool, float]:\n    return 1, 'a', True, 1.0\n")
        )

    return render, gt


def gen(tier: str, seed: int) -> list[Case]:
    rng = rng_for(seed, PID, "gen")
    gated = gated_features()
    n_models = 6 if tier == "quick" else 240
    cases = []
    for i in range(n_models):
        common = i % 2 == 0  # every second model uses only the constructs common to all styles (style relation)
        renders = []
        gts = {}
        for mi in range(2):
            tok = Tok(f"{i}m{mi}")
            render, gt = build_module(rng, tok, gated, common, 14)
            renders.append(render)
            gts[f"pk.docs{mi}"] = gt
        scn_render, scn_gt = scenario_module(rng, Tok(f"{i}m9"))
        gts["pk.docs_scn"] = scn_gt
        # a module named like the package next to a package __init__ with declarations of the same names
        init_render, gts["pk"] = build_module(rng, Tok(f"{i}m7"), gated, common, 5, name_tag=f"sh{i}")
        twin_render, gts["pk.pk"] = build_module(rng, Tok(f"{i}m8"), gated, common, 5, name_tag=f"sh{i}")
        for style in STYLES:
            files = {"src/pk/__init__.py": init_render(style), "src/pk/pk.py": twin_render(style)}
            for mi, r in enumerate(renders):
                files[f"src/pk/docs{mi}.py"] = r(style)
            files["src/pk/docs_scn.py"] = scn_render(style)
            cases.append(Case(cid=f"c13-{i}-{style}", files=files, opts=["--docstyle", style], meta={"gt": gts, "style": style, "model": i, "common": common}, reach=REACH, pre=M6_PRE if style != "plaintext" else None))
    return cases


def comment_lines(comments) -> list[str]:
    out = []
    for k, t, _l in comments:
        if k == "block":
            out += sds.doc_lines(t)
    return out


def make_judge(chk: Check):
    store: dict = {}

    def judge(case: Case, rec: dict, probe=None) -> list[Viol]:
        viols = []
        style = case.meta["style"]
        ss = StubSet(rec["tree"])
        for e in ss.errors.values():
            chk.discarded[f"unparsable-stub:{e.rule}"] += 1
        m6 = (rec.get("extra") or {}).get("m6")
        if m6:
            chk.counters["m6_cache_queries"] += m6["queries"]
            for t, n in m6["transitions"].items():
                chk.extra.setdefault("m6_transitions", {})
                chk.extra["m6_transitions"][t] = chk.extra["m6_transitions"].get(t, 0) + n
            for prev, q in m6["incoherent"]:
                # supplementary monitor on a private name: reported as evidence, the verdict is taken at the boundary
                chk.counters["m6_incoherent_cache_answers"] += 1
                chk.extra.setdefault("m6_incoherent_examples", [])
                if len(chk.extra["m6_incoherent_examples"]) < 5:
                    chk.extra["m6_incoherent_examples"].append({"previous_query": prev, "query": q})
        per_element = {}
        for rel, m in ss.files.items():
            gt = case.meta["gt"].get(m.py_module)
            if gt is None:
                continue
            where_tok: dict = {}
            elem_lines = {"<module>": comment_lines(m.header_comments)}
            for d in m.walk():
                elem_lines[d.path()] = comment_lines(d.comments)
            for path, lines in elem_lines.items():
                for ln in lines:
                    for t in re.findall(r"D\d+m\d+x\d+[a-z]", ln):
                        where_tok.setdefault(t, []).append(path)

            def expect_line(path, line, kind, prefix=""):
                want = (prefix + line).strip()
                tokn = re.search(r"D\d+m\d+x\d+[a-z]", line).group(0)
                lines = elem_lines.get(path)
                where = f"{style}:{kind}"
                if lines is None:
                    chk.discarded["element-not-in-stub"] += 1
                    return
                locs = where_tok.get(tokn, [])
                if want not in [x.strip() for x in lines]:
                    if not locs:
                        viols.append(Viol("doc-line-missing", where, {"element": path, "line": want, "comment": lines[:12]}))
                    elif path not in locs:
                        viols.append(Viol("doc-line-on-wrong-element", where, {"element": path, "line": want, "found_on": locs}))
                    else:
                        viols.append(Viol("doc-line-altered", where, {"element": path, "expected_line": want, "comment": [x for x in lines if tokn in x]}))
                else:
                    if len(locs) > 1:
                        viols.append(Viol("doc-line-duplicated", where, {"element": path, "line": want, "found_on": locs}))
                chk.case_ok(f"{where}", ident=(case.cid, tokn))

            for path, g in gt.items():
                if g["kind"] == "attribute":
                    continue
                if g["kind"] == "raw":
                    for ln, prefix in g["expected"].get(style, []):
                        expect_line(path, ln, "result-of-several", prefix)
                    continue
                mdl: DocModel = g["model"]
                if mdl.summary is None and g["kind"] != "class":
                    continue
                if style == "plaintext":
                    for ln in mdl.render("plaintext").split("\n"):
                        if re.search(r"D\d+m\d+x\d+[a-z]", ln):
                            expect_line(path, ln, g["kind"] + "-text")
                    continue
                if g["kind"] == "module":
                    for ln in [mdl.summary, *mdl.body]:
                        expect_line(path, ln, "module-text")
                    continue
                if g["kind"] == "raw":
                    for ln, prefix in g["expected"].get(style, []):
                        expect_line(path, ln, "result-of-several", prefix)
                    continue
                if mdl.summary is not None:
                    for ln in [mdl.summary, *mdl.body]:
                        expect_line(path, ln, g["kind"] + "-description")
                    for n, _t, d in mdl.params:
                        if style == "rest":
                            # reST field bodies are paragraphs: the docstring library folds continuation lines
                            expect_line(path, " ".join(d), "param", f"@param {n} ")
                        else:
                            expect_line(path, d[0], "param", f"@param {n} ")
                            for x in d[1:]:
                                expect_line(path, x, "param-continuation")
                    if mdl.result:
                        if style == "rest":
                            expect_line(path, " ".join(mdl.result[1]), "result", "@result result_1 ")
                        else:
                            expect_line(path, mdl.result[1][0], "result", "@result result_1 ")
                            for x in mdl.result[1][1:]:
                                expect_line(path, x, "result-continuation")
                    for ex in mdl.examples if style != "rest" else []:
                        lines = elem_lines.get(path) or []
                        for c in ex:
                            if f"// {c}" not in [x.strip() for x in lines]:
                                viols.append(Viol("example-line-missing", f"{style}:example", {"element": path, "code": c, "comment": lines[-8:]}))
                            chk.case_ok(f"{style}:example")
                    for n, _t, d in mdl.attrs:
                        expect_line(f"{path}/{n}", d[0], "attribute")
                if g["kind"] == "class" and g["init"].summary is not None and (case.meta.get("probe") or not (style != "numpydoc" and "doc:init-docstring-params" in gated_features())):
                    for n, _t, d in g["init"].params:
                        expect_line(path, d[0], "ctor-param-from-init-docstring", f"@param {n} ")
            # elements documented in one style only (mixed named / unnamed results) are no subject of the style relation
            per_element[m.py_module] = {p: ln for p, ln in elem_lines.items() if (gt.get(p) or {}).get("kind") != "raw"}
        # style relation
        if case.meta["common"] and style != "plaintext":
            key = case.meta["model"]
            store.setdefault(key, {})[style] = per_element
            if len(store[key]) == 3:
                ref_style = "numpydoc"
                for other in ("google", "rest"):
                    for mod, elems in store[key][ref_style].items():
                        for path, lines in elems.items():
                            ol = store[key][other].get(mod, {}).get(path)
                            if ol is not None and ol != lines:
                                viols.append(Viol("styles-disagree", f"numpydoc-vs-{other}", {"element": f"{mod}:{path}", "numpydoc": lines[:10], other: ol[:10]}))
                            chk.case_ok(f"style-relation:{other}")
                del store[key]
        if ss.files:
            rel = sorted(ss.files)[0]
            chk.sample({"case": case.cid, "file": rel, "head": rec["tree"][rel][:500]}, limit=2)
        return viols

    return judge


REQUIRED_TRANSITIONS = ["func->func", "func->class", "class->ctor", "ctor->class", "ctor->ctor"]


def main(tier: str, seed: int) -> int:
    chk = Check(PID, tier, seed)
    cases = gen(tier, seed)
    judge = make_judge(chk)
    drive(chk, cases, judge, per_proc=2)
    tr = chk.extra.get("m6_transitions", {})
    seen = {t.split(":")[0] for t in tr}
    chk.extra["m6_required_transitions_seen"] = {t: (t in seen) for t in REQUIRED_TRANSITIONS}
    chk.monitors["M6"] = {"attached": chk.counters["m6_cache_queries"] > 0, "queries": chk.counters["m6_cache_queries"]}
    chk.run_probes(lambda c, r, probe=None: judge(c, r), build_case=build_probe)
    chk.assumptions = [
        "description texts do not contain '*/' (recorded C02 finding) and are single words-and-spaces lines carrying a unique token",
        "style relation only over constructs common to the three structured styles: summary, body lines, single-line typed parameter descriptions, one unnamed typed result",
        "reST has no example section; attribute sections and multi-line descriptions are checked per style only",
    ]
    return chk.finish(
        rule="one case = one description line (unique token) looked up in the documentation comment of its element in all parsed stubs, plus per-element comparisons of the style relation; distinct = (style, kind of line)",
        min_cases=800 if tier == "quick" else 10000,
    )


def build_probe(f: dict) -> Case:
    """Probe packages are built from doc models, like the workload."""
    name = f["probe"]["builder"]
    if name == "init_docstring_google":
        cm = DocModel()
        cm.summary = "D9m0x1s class summary"
        im = DocModel()
        im.summary = "D9m0x2s init summary"
        im.params = [("c0", "int", ["D9m0x3p described on init"])]
        src = f"class Kl9m0x0:\n{pydoc(cm.render('google'), '    ')}\n    def __init__(self, c0: int) -> None:\n{pydoc(im.render('google'), '        ')}        self.made = c0\n"
        gt = {"pk.docs0": {"Kl9m0x0": {"kind": "class", "model": cm, "init": im, "cparams": ["c0"]}}}
        case = Case(cid="probe:" + f["id"], files={"src/pk/__init__.py": "", "src/pk/docs0.py": src}, opts=["--docstyle", "google"], meta={"gt": gt, "style": "google", "model": 999, "common": False, "probe": True}, reach=REACH)
        return case
    if name == "bom_file_numpydoc":
        fm = DocModel()
        fm.summary = "D9m1x1s summary in a file with byte order mark"
        src = f"def fn9m1x0() -> None:\n{pydoc(fm.render('numpydoc'), '    ')}"
        gt = {"pk.docs0": {"fn9m1x0": {"kind": "function", "model": fm}, "<module>": {"kind": "module", "model": DocModel()}}}
        data = b"\xef\xbb\xbf" + src.encode()
        return Case(cid="probe:" + f["id"], files={"src/pk/__init__.py": "", "src/pk/docs0.py": {"hex": data.hex()}}, opts=["--docstyle", "numpydoc"], meta={"gt": gt, "style": "numpydoc", "model": 998, "common": False, "probe": True}, reach=REACH)
    raise ValueError(name)


def replay(path: str) -> int:
    return generic_replay(path, gen, make_judge)
