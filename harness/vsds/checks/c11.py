"""C11 -- every referenced class is declared or imported, and every import resolves.

Oracle: symbol resolution over the parsed stub set of one run (emitted names: imports and package lines are both
emitted in converted form).
"""

from __future__ import annotations

from .. import pkggen as pg
from .. import sds
from ..core import Check, Viol, drive, gated_features, generic_replay, rng_for, noise_opts
from ..run import Case
from ..stubs import StubSet
from . import c10

PID = "C11"
REACH = [
    "StubsStringGenerator._add_to_imports",
    "StubsStringGenerator._is_path_connected_to_class",
    "StubsStringGenerator._create_imports_string",
    "StubsStringGenerator._create_type_string",
    "_get_shortest_public_reexport",
    "_create_outside_package_class",
]


REF_CATEGORIES = ["plain-same-module", "plain-other-module", "target-moved-same-module", "target-moved-other-module", "target-aliased", "target-module-moved", "target-not-public"]


def gen(tier: str, seed: int) -> list[Case]:
    rng = rng_for(seed, PID, "gen")
    gated = gated_features()
    cfg = c10.make_cfg(gated)
    cfg.cross_refs = False  # references are assigned after the re-exports are known (phase 3)
    cfg.reexport_forms = tuple(f for f in cfg.reexport_forms if f"reexport-moves-module:{f.split('-')[0]}" not in gated)
    cfg.p_reexport = 0.5
    allowed = {c for c in REF_CATEGORIES if f"ref:{c}" not in gated}
    n = 24 if tier == "quick" else 1600
    cases = []
    for i in range(n):
        cfg.local_foreign_lower = i % 2 == 0  # lower-case class names only without naming conversion (recorded finding)
        cfg.docs = i % 4 in (1, 2)  # documented modules, classes and functions; modules ending with documented memberless declarations
        pkg = pg.random_pkg(rng, cfg)
        counts = pg.assign_cross_refs(rng, pkg, allowed, 0.5)
        add_public_inheritance(rng, pkg)
        add_private_inheritance(rng, pkg)
        add_generic_refs(rng, pkg, gated)
        cases.append(Case(cid=f"c11-{i}", files=pg.render(pkg), opts=(["-nc"] if i % 2 else []) + noise_opts(seed, PID, i), meta={"pkg": pkg, "ref_categories": counts}, reach=REACH))
    for name, pkg in scenarios().items():
        for nc in (False, True):
            cases.append(Case(cid=f"c11-scn-{name}-{int(nc)}", files=pg.render(pkg), opts=["-nc"] if nc else [], meta={"pkg": pkg, "ref_categories": {f"scenario:{name}": 1}}, reach=REACH))
    return cases


def scenarios() -> dict:
    """Deterministic packages aimed at the name-matching heuristics of the import logic (run on every seed)."""
    out = {}
    # module names that are prefixes / suffixes of each other, classes used across them in both directions
    pkg = pg.Pkg()
    a = pg.Mod(("pk",), "utils", imports=["from pk.utils_extra import ExtraThing", "from pk.more_utils import MoreThing"], decls=[pg.Cls("UtilThing"), pg.Fn("mix", [pg.Param("a", "ExtraThing"), pg.Param("b", "MoreThing"), pg.Param("c", "UtilThing")], "ExtraThing")])
    b = pg.Mod(("pk",), "utils_extra", imports=["from pk.utils import UtilThing"], decls=[pg.Cls("ExtraThing", cattrs=[pg.Attr("held", "UtilThing", None)]), pg.Fn("back", [pg.Param("a", "UtilThing")], "UtilThing")])
    c = pg.Mod(("pk",), "more_utils", imports=["from pk.utils import UtilThing"], decls=[pg.Cls("MoreThing", bases=["UtilThing"])])
    pkg.modules += [a, b, c]
    out["affix-module-names"] = pkg
    # class names that are prefixes / suffixes of each other, in different modules and packages
    pkg = pg.Pkg()
    m1 = pg.Mod(("pk", "geo"), "shapes", decls=[pg.Cls("Shape"), pg.Cls("ShapeGroup"), pg.Cls("BigShape")])
    m2 = pg.Mod(("pk", "geo2"), "shapes", decls=[pg.Cls("Other")])
    m3 = pg.Mod(("pk",), "draw", imports=["from pk.geo.shapes import Shape, ShapeGroup, BigShape", "from pk.geo2.shapes import Other"],
                decls=[pg.Fn("paint", [pg.Param("a", "Shape"), pg.Param("b", "ShapeGroup"), pg.Param("c", "BigShape"), pg.Param("d", "Other")], "Shape")])
    pkg.modules += [m1, m2, m3]
    out["affix-class-names"] = pkg
    # one class re-exported by several packages that are no ancestors of its module: fewer path segments but more
    # characters / more segments but fewer characters / equally deep siblings (where the class is declared and where
    # it is imported from have to be decided alike)
    pkg = pg.Pkg()
    shapes = pg.Mod(("pk", "core", "impl"), "shapes", decls=[pg.Cls("Shape"), pg.Cls("Solid"), pg.Cls("Edge")])
    pkg.modules += [shapes, pg.Mod(("pk", "core"), "core_mod", decls=[pg.Fn("core_fn")])]
    for path in (("pk", "visualization"), ("pk", "io", "fmt"), ("pk", "io"), ("pk", "zz_a_long_package_name"), ("pk", "ab")):
        pkg.modules.append(pg.Mod(path, "filler_" + path[-1], decls=[pg.Fn("filler_fn_" + path[-1])]))
    pkg.inits[("pk", "visualization")] = [pg.Reexport("name", "pk.core.impl.shapes", "Shape", None, "abs")]
    pkg.inits[("pk", "io", "fmt")] = [pg.Reexport("name", "pk.core.impl.shapes", "Shape", None, "abs"), pg.Reexport("name", "pk.core.impl.shapes", "Edge", None, "abs")]
    pkg.inits[("pk", "zz_a_long_package_name")] = [pg.Reexport("name", "pk.core.impl.shapes", "Solid", None, "abs"), pg.Reexport("name", "pk.core.impl.shapes", "Edge", None, "abs")]
    pkg.inits[("pk", "ab")] = [pg.Reexport("name", "pk.core.impl.shapes", "Solid", None, "abs")]
    pkg.modules.append(pg.Mod(("pk", "app"), "main", imports=["from pk.core.impl.shapes import Shape, Solid, Edge"],
                              decls=[pg.Fn("draw", [pg.Param("a", "Shape"), pg.Param("b", "Solid"), pg.Param("c", "Edge")], "Shape"), pg.Cls("Special", bases=["Solid"])]))
    out["unrelated-reexporting-packages"] = pkg
    # a module-level alias of a class of another module, used as base class several times (in the module that defines
    # the alias and, imported, in a later one)
    pkg = pg.Pkg()
    real = pg.Mod(("pk",), "real", decls=[pg.Cls("RealBase", methods=[pg.Fn("real_method", role="inst")]), pg.Cls("OtherBase")])
    al = pg.Mod(("pk",), "aliases", imports=["from pk import real", "AliasBase = real.RealBase", "SecondAlias = real.OtherBase"],
                decls=[pg.Cls("First", bases=["AliasBase"]), pg.Cls("Second", bases=["AliasBase"]), pg.Cls("Third", bases=["AliasBase"]), pg.Cls("Fourth", bases=["SecondAlias"]), pg.Cls("Fifth", bases=["SecondAlias"])])
    later = pg.Mod(("pk",), "zz_later", imports=["from pk import real", "AliasBase = real.RealBase"], decls=[pg.Cls("Sixth", bases=["AliasBase"]), pg.Cls("Seventh", bases=["AliasBase"])])
    pkg.modules += [real, al, later]
    out["class-alias-used-as-base-several-times"] = pkg
    return out


def add_public_inheritance(rng, pkg: pg.Pkg) -> None:
    """Public superclasses defined in the same or another module (superclass position of the quantifier)."""
    tops = [(m, d) for m in pkg.modules for d in m.decls if isinstance(d, pg.Cls)]
    pubs = pg.publicity(pkg)
    gated = gated_features()
    ok = {c for c in REF_CATEGORIES if f"ref:{c}" not in gated}
    publics = [(m, c) for m, c in tops if not c.name.startswith("_") and not c.bases]
    for m, c in tops:
        if c.bases or rng.random() > 0.3:
            continue
        cands = [(m2, c2) for m2, c2 in publics if c2 is not c and not c2.bases and pg.ref_category(pkg, pubs, m, m2, c2) in ok]
        if not cands:
            continue
        m2, c2 = rng.choice(cands)
        if m2 is m and m.decls.index(c2) > m.decls.index(c):
            continue
        if m2 is not m:
            line = f"from {m2.qname} import {c2.name}"
            if line not in m.imports:
                m.imports.append(line)
        c.bases.append(c2.name)
        c2.has_subclass = True


def add_private_inheritance(rng, pkg: pg.Pkg) -> None:
    """Public classes deriving from a PRIVATE class of ANOTHER module whose public methods use classes of that other
    module: the methods are shown in the subclass, so their types have to be imported into the subclass's stub."""
    tops = [(m, d) for m in pkg.modules for d in m.decls if isinstance(d, pg.Cls)]
    pubs = pg.publicity(pkg)
    gated = gated_features()
    ok = {c for c in REF_CATEGORIES if f"ref:{c}" not in gated}
    k = 0
    for m, c in tops:
        if c.bases or c.name.startswith("_") or rng.random() > 0.35:
            continue
        cands = [(m2, t) for m2, t in tops if m2 is not m and not t.name.startswith("_") and not t.bases and pg.ref_category(pkg, pubs, m, m2, t) in ok]
        if not cands:
            continue
        m2, t = rng.choice(cands)
        k += 1
        base = pg.Cls(f"_PrivBase{k}Of{t.name}", methods=[pg.Fn(f"inherited_via_private_{k}", [pg.Param("a", t.name), pg.Param("b", f"list[{t.name}]")], t.name, role="inst")])
        m2.decls.insert(m2.decls.index(t) + 1, base)
        line = f"from {m2.qname} import {base.name}"
        if line not in m.imports:
            m.imports.append(line)
        c.bases.append(base.name)


def add_generic_refs(rng, pkg: pg.Pkg, gated: set) -> None:
    """A generic class used with arguments in the module that defines it (cross-module use is a recorded finding)."""
    for m in pkg.modules:
        if rng.random() < 0.4:
            line = "from typing import Generic, TypeVar"
            if line not in m.imports:
                m.imports.append(line)
            tv = f"TV{len(m.decls)}"
            m.extra += f'\n{tv} = TypeVar("{tv}")\n\n\nclass Crate{len(m.decls)}(Generic[{tv}]):\n    def put(self, item: {tv}) -> {tv}: ...\n\n\ndef open_crate{len(m.decls)}(c: Crate{len(m.decls)}[int]) -> Crate{len(m.decls)}[str]: ...\n'


def resolve(ss: StubSet, chk: Check) -> list[Viol]:
    viols: list[Viol] = []
    # package (emitted) -> top-level declaration names (emitted)
    decls_by_pkg: dict = {}
    for rel, m in ss.files.items():
        for d in m.decls:
            decls_by_pkg.setdefault(m.package, set()).add(d.name)
    for rel, m in ss.files.items():
        imported = {}
        for frm, name, alias in m.imports:
            imported[alias or name] = (frm, name)
            if name not in decls_by_pkg.get(frm, set()):
                viols.append(Viol("import-does-not-resolve", "import", {"file": rel, "import": f"from {frm} import {name}", "package_exists": frm in decls_by_pkg}))
            chk.case_ok(f"import:{len(frm.split('.'))}")
        local = set()
        for d in m.walk():
            if d.kind in ("class", "enum"):
                local.add(d.name)

        def check_type(t, scope, where, d):
            for n in t.names():
                nm = n.name
                if nm in sds.BUILTIN_TYPES or nm in scope or nm in local or nm in imported:
                    chk.case_ok(f"ref:{where}:{'builtin' if nm in sds.BUILTIN_TYPES else 'tparam' if nm in scope else 'local' if nm in local else 'imported'}", ident=(id(ss), rel, d.path(), where, nm))
                    continue
                viols.append(Viol("undeclared-type", where, {"file": rel, "declaration": d.path(), "name": nm}))

        def visit(d, scope):
            sc = set(scope) | {tp.name for tp in d.tparams}
            for tp in d.tparams:
                if tp.bound is not None:
                    check_type(tp.bound, sc, "type-parameter-bound", d)
            for s in d.supers:
                check_type(s, sc, "superclass", d)
            for p in d.params or []:
                if p.type is not None:
                    check_type(p.type, sc, "parameter", d)
            for r in d.results:
                if r.type is not None:
                    check_type(r.type, sc, "result", d)
            if d.type is not None:
                check_type(d.type, sc, "attribute", d)
            for mem in d.members:
                visit(mem, sc)

        for d in m.decls:
            visit(d, set())
    return viols


def make_judge(chk: Check):
    def judge(case: Case, rec: dict, probe=None) -> list[Viol]:
        ss = StubSet(rec["tree"])
        for e in ss.errors.values():
            chk.discarded[f"unparsable-stub:{e.rule}"] += 1
        viols = resolve(ss, chk)
        nimp = sum(len(m.imports) for m in ss.files.values())
        chk.counters["import_lines"] += nimp
        if nimp:
            rel = next(r for r, m in ss.files.items() if m.imports)
            chk.sample({"case": case.cid, "file": rel, "imports": ss.files[rel].imports[:6]}, limit=3)
        return viols

    return judge


def main(tier: str, seed: int) -> int:
    chk = Check(PID, tier, seed)
    cases = gen(tier, seed)
    judge = make_judge(chk)
    drive(chk, cases, judge, per_proc=3)
    from .c03 import build_probe

    chk.run_probes(lambda c, r, probe=None: judge(c, r), build_case=lambda f: c10._probe_case(f, build_probe))
    cats: dict = {}
    for c in cases:
        for k, v in c.meta.get("ref_categories", {}).items():
            cats[k] = cats.get(k, 0) + v
    chk.extra["reference_categories_generated"] = cats
    chk.extra["gated_features"] = sorted(f for f in gated_features() if f.split(":")[0] in ("ref", "reexport-moves-module", "type", "class-name", "reexport"))
    chk.assumptions = [
        "names are resolved as emitted (imports and package lines are emitted in converted form)",
        "class names used as types do not change under naming conversion; nested classes are not used as types; generic classes are used with arguments only in their own module (recorded findings)",
    ]
    return chk.finish(
        rule="one case = one class-name reference in a type/superclass position or one import line, resolved against the whole stub set; distinct = (position, how it resolves) / import depth; all non-trivial",
        min_cases=1500 if tier == "quick" else 20000,
    )


def replay(path: str) -> int:
    return generic_replay(path, gen, make_judge)
