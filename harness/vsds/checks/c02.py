"""C02 -- every emitted stub file is syntactically valid Safe-DS.

Oracle: the independent recogniser (vsds.sds) must accept every *.sdsstub of every run.
Workload (lexical hostility): (i) keyword matrix -- each of the 33 keywords in every declaration position Python
permits, directly and through the spellings naming conversion turns into keywords; (ii) identifier shapes;
(iii) string defaults / Literal values over a hostile alphabet; (iv) docstring texts with the same characters in
all four styles.
"""

from __future__ import annotations

import keyword as pykw

from .. import sds
from ..core import Check, Viol, drive, gated_features, generic_replay, rng_for
from ..run import Case
from ..stubs import StubSet

PID = "C02"
REACH = [
    "_replace_if_safeds_keyword",
    "_create_name_annotation",
    "StubsStringGenerator._create_class_string",
    "StubsStringGenerator._create_function_string",
    "StubsStringGenerator._create_property_function_string",
    "StubsStringGenerator._create_result_string",
    "StubsStringGenerator._create_parameter_string",
    "StubsStringGenerator._create_enum_string",
    "StubsStringGenerator._create_type_string",
    "StubsStringGenerator._create_imports_string",
    "StubsStringGenerator._create_sds_docstring",
    "StubsStringGenerator._create_docstring_description_part",
    "_create_outside_package_class_text",
    "MyPyAstVisitor._get_parameter_type_and_default_value",
]

KWS = sorted(sds.KEYWORDS)
PY_KW = [k for k in KWS if pykw.iskeyword(k)]
NON_PY_KW = [k for k in KWS if not pykw.iskeyword(k)]

# positions (DESIGN.md C02).  Each builder returns module source for a list of spelled names.
POSITIONS = [
    "function", "class", "method", "property", "parameter", "class-attr", "instance-attr", "enum-member", "typevar",
    "result-name", "enum-name", "class-ref", "superclass", "module-segment", "package-segment", "reexport-alias",
    "class-typevar",
]


def spellings(naming: bool) -> list[tuple[str, str]]:
    """(python spelling, keyword it becomes in the stub)."""
    out = []
    for k in NON_PY_KW:
        if k != "_":
            out.append((k, k))
    if naming:
        for k in KWS:
            if k == "_":
                continue
            out.append((k + "_", k))  # trailing underscore is stripped by the conversion
            out.append((f"__{k}__", k))  # dunder spelling (public)
    return out


def build_keyword_package(naming: bool, gated: set) -> tuple[dict, dict]:
    sp = spellings(naming)
    names = [s for s, _ in sp]
    files = {"src/pk/__init__.py": ""}
    feats = {}

    def add(pos, modname, text):
        if f"ident:keyword@{pos}" in gated:
            return
        files[f"src/pk/{modname}.py"] = text
        feats[pos] = len(names)

    add("function", "m_fun", "".join(f"def {n}() -> None: ...\n\n" for n in names))
    add("class", "m_cls", "".join(f"class {n}:\n    def go(self) -> None: ...\n\n" for n in names))
    add("method", "m_meth", "class HolderM:\n" + "".join(f"    def {n}(self) -> None: ...\n\n" for n in names))
    add("property", "m_prop", "class HolderP:\n" + "".join(f"    @property\n    def {n}(self) -> int: ...\n\n" for n in names))
    pnames = [n for n in names if not n.startswith("__")] + ["_"]
    add("parameter", "m_param", "def params_all(" + ", ".join(f"{n}: int" for n in pnames) + ") -> None: ...\n\n"
        + "class CtorP:\n    def __init__(self, " + ", ".join(f"{n}: int = 1" for n in pnames) + ") -> None: ...\n")
    add("class-attr", "m_cattr", "class HolderA:\n" + "".join(f"    {n}: int = 1\n" for n in names))
    add("instance-attr", "m_iattr", "class HolderI:\n    def __init__(self) -> None:\n" + "".join(f"        self.{n}: int = 1\n" for n in names))
    enames = [n for n in names if not n.startswith("__")]
    add("enum-member", "m_enumm", "from enum import Enum\n\n\nclass Variants(Enum):\n" + "".join(f"    {n} = {i}\n" for i, n in enumerate(enames)))
    add("typevar", "m_tvar", "from typing import TypeVar\n\n" + "".join(f'{n} = TypeVar("{n}")\n' for n in enames)
        + "".join(f"\n\ndef tv_{i}(x: {n}) -> {n}: ...\n" for i, n in enumerate(enames)))
    # type parameters of generic classes: invariant, covariant, contravariant, bounded - declared in the class header, used in its body
    if "ident:keyword@class-typevar" not in gated:
        for var, kw in (("inv", ""), ("co", ", covariant=True"), ("contra", ", contravariant=True"), ("bound", ", bound=int")):
            files[f"src/pk/m_ctv_{var}.py"] = "from typing import Generic, TypeVar\n\n" + "".join(f'{n} = TypeVar("{n}"{kw})\n' for n in enames) + "".join(
                f"\n\nclass G{var.title()}{i}(Generic[{n}]):\n" + (f"    def put(self, x: {n}) -> None: ...\n" if var != "co" else f"    def get(self) -> {n}: ...\n")
                for i, n in enumerate(enames))
        feats["class-typevar"] = 4 * len(enames)
    add("result-name", "m_res", "".join(
        f'def rs_{i}() -> int:\n    """Doc.\n\n    Returns\n    -------\n    {n} : int\n        The result.\n    """\n    return 1\n\n\n' for i, n in enumerate(enames)))
    add("enum-name", "m_enumn", "from enum import Enum\n\n" + "".join(f"\nclass {n}(Enum):\n    A = 1\n\n" for n in enames))
    add("class-ref", "m_cref", "from pk.m_cls import " + ", ".join(enames) + "\n\n" + "".join(
        f"def use_{i}(x: {n}) -> {n}: ...\n\n" for i, n in enumerate(enames)))
    add("superclass", "m_super", "from pk.m_cls import " + ", ".join(enames) + "\n\n" + "".join(
        f"class Sub{i}({n}):\n    def own(self) -> None: ...\n\n" for i, n in enumerate(enames)))
    if "ident:keyword@module-segment" not in gated:
        for n in enames:
            files[f"src/pk/mods/{n}.py"] = f"def inside_{'x'}() -> None: ...\n"
        files["src/pk/mods/__init__.py"] = ""
        feats["module-segment"] = len(enames)
    if "ident:keyword@package-segment" not in gated:
        for n in enames[:12]:
            files[f"src/pk/{n}/__init__.py"] = ""
            files[f"src/pk/{n}/leaf.py"] = "class LeafCls:\n    def go(self) -> None: ...\n\n\ndef leaf_fn(x: LeafCls) -> LeafCls: ...\n"
            # path segments of every shape next to the keyword segment (snake_case, CamelCase, digits), used from outside
            files[f"src/pk/{n}/data_utils.py"] = "class SnakeCls:\n    pass\n"
            files[f"src/pk/{n}/CamelMod.py"] = "class CamelCls:\n    pass\n"
            files[f"src/pk/{n}/sub_pkg2/__init__.py"] = ""
            files[f"src/pk/{n}/sub_pkg2/deep_mod.py"] = "class DeepCls:\n    pass\n"
            files[f"src/pk/user_of_{n}.py"] = (
                f"from pk.{n}.data_utils import SnakeCls\nfrom pk.{n}.CamelMod import CamelCls\nfrom pk.{n}.sub_pkg2.deep_mod import DeepCls\nfrom pk.{n}.leaf import LeafCls\n\n\n"
                "def use(a: SnakeCls, b: CamelCls, c: DeepCls, d: LeafCls) -> SnakeCls: ...\n"
            )
        feats["package-segment"] = min(12, len(enames))
    if "ident:keyword@reexport-alias" not in gated:
        files["src/pk/alias_src.py"] = "".join(f"def orig_{i}() -> None: ...\n\n" for i in range(len(enames)))
        files["src/pk/__init__.py"] = "".join(f"from .alias_src import orig_{i} as {n}\n" for i, n in enumerate(enames))
        feats["reexport-alias"] = len(enames)
    return files, feats


# ------------------------------------------------------------------------------------------ identifier shapes

SHAPES = ["a", "A", "a_", "a__", "a_b", "a__b", "a_1", "a1_", "x_3d", "aB", "AB_CD", "__a__", "__a_b__", "a_b_c_d", "Z9", "a" * 60]
HOSTILE_SHAPES = {"ident:nc-digit-leading": ["_3d", "__1x__", "_1"], "ident:nc-empty": ["__", "___"], "ident:non-ascii": ["é", "naïve", "Ωmega"]}


def build_shape_package(gated: set) -> tuple[dict, dict]:
    pnames = list(SHAPES)
    feats = {"shapes": len(SHAPES)}
    for feat, lst in HOSTILE_SHAPES.items():
        if feat not in gated:
            pnames += lst
            feats[feat] = len(lst)
    pub = [n for n in pnames if not (n.startswith("_") and not n.endswith("__"))]
    text = "def shapes_as_params(" + ", ".join(f"{n}: int" for n in pnames if n != "__" and n != "___") + ") -> None: ...\n\n"
    if "ident:nc-empty" not in gated:
        text += "def empty_after_conversion(__: int, ___: str) -> None: ...\n\n"
    text += "".join(f"def {n}() -> None: ...\n\n" for n in pub)
    text += "class HolderS:\n" + "".join(f"    {n}: int = 1\n" for n in pub) + "".join(f"    def m{n}(self, {n}: int) -> None: ...\n\n" for n in pub)
    return {"src/pk/__init__.py": "", "src/pk/m_shape.py": text}, feats


# ------------------------------------------------------------------------------------------ strings and docstrings

SAFE_CHARS = list("abcXYZ019 _-.,:;!?()[]<>=+&%$#@~^|'")
HOSTILE_CHARS = {
    "has-quote": '"',
    "has-backslash": "\\",
    "has-newline": "\n",
    "has-tab": "\t",
    "has-comment-close": "*/",
    "has-comment-open": "/*",
    "has-line-comment": "//",
    "has-backtick": "`",
    "has-brace": "{",
    "has-brace-close": "}",
    "has-double-brace": "{{",
    "nul": "\0",
    "non-ascii": "é",
    "cr": "\r",
}


def rand_string(rng, allowed_hostile: list[str], maxlen: int) -> tuple[str, set]:
    n = rng.randint(0, maxlen)
    out = []
    used = set()
    for _ in range(n):
        if allowed_hostile and rng.random() < 0.35:
            f = rng.choice(allowed_hostile)
            out.append(HOSTILE_CHARS[f])
            used.add(f)
        else:
            out.append(rng.choice(SAFE_CHARS))
    return "".join(out), used


def build_string_package(rng, gated: set, n_funcs: int, maxlen: int) -> tuple[dict, dict]:
    d_ok = [f for f in HOSTILE_CHARS if f"default:str:{f}" not in gated]
    l_ok = [f for f in HOSTILE_CHARS if f"literal:str:{f}" not in gated]
    feats = {}
    lines = ["from typing import Literal, Optional, Union\n\n\n"]
    for i in range(n_funcs):
        s1, u1 = rand_string(rng, d_ok, maxlen)
        s2, u2 = rand_string(rng, l_ok, maxlen)
        s3, u3 = rand_string(rng, l_ok, maxlen)
        for u in u1:
            feats["default:" + u] = feats.get("default:" + u, 0) + 1
        for u in u2 | u3:
            feats["literal:" + u] = feats.get("literal:" + u, 0) + 1
        lit = f"Literal[{s2!r}]" if rng.random() < 0.5 else f"Literal[{s2!r}, {s3!r}, 1]"
        if rng.random() < 0.3:
            lit = f"Optional[{lit}]"
        lines.append(f"def s_{i}(a: str = {s1!r}, b: {lit} = {s2!r}, c=({s1!r})) -> {lit}: ...\n\n")
    lines.append("class StrHolder:\n")
    for i in range(max(4, n_funcs // 4)):
        s1, u1 = rand_string(rng, d_ok, maxlen)
        s2, u2 = rand_string(rng, l_ok, maxlen)
        lines.append(f"    at_{i}: Literal[{s2!r}] = {s2!r}\n")
        lines.append(f"    def m_{i}(self, p: str = {s1!r}) -> None: ...\n\n")
    return {"src/pk/__init__.py": "", "src/pk/m_str.py": "".join(lines)}, feats


def doc_text(rng, ok: list[str], maxlen: int = 14) -> str:
    s, _ = rand_string(rng, ok, maxlen)
    s = s.replace("\0", "")  # a NUL cannot be part of a docstring the docstring libraries accept
    if "has-comment-close" not in ok:
        while "*/" in s:  # pieces may combine ("/*" + "//") into the gated feature
            s = s.replace("*/", "* /")
    return "T" + s.replace("\r", "")


def render_doc(style: str, rng, ok: list[str], params: list[str], has_result: bool, attrs: list[str] = ()) -> str:
    """A docstring in the given style whose free texts contain hostile characters.  Returned as Python *value*."""
    t = lambda: doc_text(rng, [f for f in ok if f not in ("has-newline",)])  # noqa: E731 - single-line fields
    summary = t()
    body = doc_text(rng, ok) + "\n" + t()
    if style == "plaintext":
        return f"{summary}\n\n{body}\n"
    if style == "numpydoc":
        out = f"{summary}\n\n{body}\n"
        if params:
            out += "\nParameters\n----------\n" + "".join(f"{p} : int\n    {t()}\n" for p in params)
        if attrs:
            out += "\nAttributes\n----------\n" + "".join(f"{p} : int\n    {t()}\n" for p in attrs)
        if has_result:
            out += f"\nReturns\n-------\nres : int\n    {t()}\n"
        out += f"\nExamples\n--------\n>>> call({t()!r})\n... more\n"
        return out
    if style == "google":
        out = f"{summary}\n\n{body}\n"
        if params:
            out += "\nArgs:\n" + "".join(f"    {p} (int): {t()}\n" for p in params)
        if attrs:
            out += "\nAttributes:\n" + "".join(f"    {p} (int): {t()}\n" for p in attrs)
        if has_result:
            out += f"\nReturns:\n    int: {t()}\n"
        out += f"\nExamples:\n    >>> call({t()!r})\n    ... more\n"
        return out
    if style == "rest":
        out = f"{summary}\n\n{body}\n\n"
        out += "".join(f":param {p}: {t()}\n:type {p}: int\n" for p in params)
        if has_result:
            out += f":returns: {t()}\n:rtype: int\n"
        return out
    raise ValueError(style)


def build_doc_package(rng, gated: set, style: str, n: int) -> tuple[dict, dict]:
    ok = [f for f in HOSTILE_CHARS if f"doc:text:{f}" not in gated and f not in ("nul", "cr")]
    lines = [repr(render_doc(style, rng, ok, [], False)) + "\n\n"]
    for i in range(n):
        params = ["aa", "b_b"][: rng.randint(0, 2)]
        d = render_doc(style, rng, ok, params, True)
        lines.append(f"def d_{i}({', '.join(p + ': int' for p in params)}) -> int:\n    {d!r}\n    return 1\n\n\n")
    for i in range(max(2, n // 3)):
        d = render_doc(style, rng, ok, ["p"], False, attrs=["at"])
        dm = render_doc(style, rng, ok, ["q"], True)
        lines.append(
            f"class D{i}:\n    {d!r}\n\n    at: int = 1\n\n    def __init__(self, p: int) -> None:\n        self.p = p\n\n"
            f"    def meth(self, q: int) -> int:\n        {dm!r}\n        return q\n\n\n",
        )
    return {"src/pk/__init__.py": "", "src/pk/m_doc.py": "".join(lines)}, {"doc_chars": ok, "style": style}


# ------------------------------------------------------------------------------------------ workload

STYLES = ["plaintext", "numpydoc", "google", "rest"]


def gen(tier: str, seed: int) -> list[Case]:
    rng = rng_for(seed, PID, "gen")
    gated = gated_features()
    cases = []
    for naming in (False, True):
        files, feats = build_keyword_package(naming, gated)
        opts = ["--docstyle", "numpydoc"] + (["-nc"] if naming else [])
        cases.append(Case(cid=f"c02-kw-{'nc' if naming else 'py'}", files=files, opts=opts, meta={"part": "keywords", "feats": feats, "naming": naming}, reach=REACH))
        files, feats = build_shape_package(gated)
        cases.append(Case(cid=f"c02-shapes-{'nc' if naming else 'py'}", files=files, opts=["-nc"] if naming else [], meta={"part": "shapes", "feats": feats, "naming": naming}, reach=REACH))
    n_str = 10 if tier == "quick" else 500
    for i in range(n_str):
        files, feats = build_string_package(rng, gated, 60, 6 if tier == "quick" else 12)
        cases.append(Case(cid=f"c02-str-{i}", files=files, opts=["-nc"] if i % 2 else [], meta={"part": "strings", "feats": feats}, reach=REACH))
    n_doc = 3 if tier == "quick" else 150
    for i in range(n_doc):
        for style in STYLES:
            files, feats = build_doc_package(rng, gated, style, 24)
            cases.append(Case(cid=f"c02-doc-{style}-{i}", files=files, opts=["--docstyle", style] + (["-nc"] if i % 2 else []), meta={"part": "docs", "feats": feats}, reach=REACH))
    # (v) structure: nested class / enum bodies, generics, re-export files, rich type syntax
    from . import c05, c09

    n_struct = 6 if tier == "quick" else 250
    for i in range(n_struct):
        files, info = c09.build_pair_package(rng, gated)
        files["src/pk/deep.py"] = deep_nesting_module(rng)
        cases.append(Case(cid=f"c02-struct-{i}", files=files, opts=["-nc"] if i % 2 else [], meta={"part": "structure", "feats": {"structure-packages": 1}}, reach=REACH))
    # (vii) number, bool and None defaults / attribute values / Literal values over the whole range of magnitudes
    ints = ["0", "-1", "7", "+3", "9223372036854775808", "-170141183460469231731687303715884105728", "0xff", "0o17", "0b101", "1_000_000", "10**20", "-(2**64)"]
    floats = [f"{m}e{e}" for m in ("1", "2.5", "-1", "9.999") for e in (-320, -30, -20, -8, -5, -4, -1, 0, 1, 5, 15, 16, 17, 20, 21, 22, 30, 100, 308)] + ["0.0", "-0.0", "1.5", ".5", "5.", "1e400", "-1e400", "123456789.123456789", "0.1 + 0.2", "1_0.0_1", "1E5", "1e+5"]
    others = ["True", "False", "None", "not True", "-True"]
    lines = ["from typing import Literal\n\n\n"]
    vals = ints + floats + others
    for k in range(0, len(vals), 8):
        chunk = vals[k : k + 8]
        lines.append(f"def nums{k}(" + ", ".join(f"p{j}={v}" for j, v in enumerate(chunk)) + ") -> None: ...\n\n\n")
        lines.append(f"def typed{k}(" + ", ".join(f"p{j}: float = {v}" for j, v in enumerate(chunk)) + ") -> None: ...\n\n\n")
        lines.append(f"class Num{k}:\n" + "".join(f"    a{j} = {v}\n" for j, v in enumerate(chunk)) + f"\n    def __init__(self, {', '.join(f'q{j}={v}' for j, v in enumerate(chunk))}) -> None:\n" + "".join(f"        self.i{j} = {v}\n" for j, v in enumerate(chunk)) + "\n\n")
    lits = ["0", "-1", "7", "9223372036854775808", "-170141183460469231731687303715884105728", "0xff", "1_000", "True", "False", "None"]
    lines.append("def lits(" + ", ".join(f"l{j}: Literal[{v}] = {v}" for j, v in enumerate(lits)) + f", all_: Literal[{', '.join(lits)}] = 0) -> Literal[{', '.join(lits[:4])}]: ...\n")
    # defaults and attribute values that are collections (empty and not) or other expressions that are no literal
    colls = ["()", "[]", "{}", "(1,)", "(1, 'a')", "[1, 2]", "{1: 'a'}", "{1, 2}", "set()", "frozenset()", "dict()", "list()", "tuple()", "((), [])", "[[]]", "{'k': ()}", "range(3)", "b''", "b'x'", "...", "-(1)", "1 if True else 2"]
    lines.append("\n\ndef colls(" + ", ".join(f"c{j}={v}" for j, v in enumerate(colls)) + ") -> None: ...\n\n\n")
    lines.append("def colls_typed(t: tuple[int, ...] = (), l: list[int] = [], d: dict[str, int] = {}, s: set[int] = set(), o: object = (), *args: int, **kwargs: int) -> None: ...\n\n\n")
    lines.append("class Colls:\n" + "".join(f"    a{j} = {v}\n" for j, v in enumerate(colls)) + "    t: tuple[int, ...] = ()\n\n    def __init__(self, t: tuple[int, ...] = (), l=[], d={}) -> None:\n        self.t = t\n        self.e = ()\n        self.f: list[int] = []\n\n    def m(self, t=(), /, *, k=()) -> None: ...\n")
    for nc in (False, True):
        cases.append(Case(cid=f"c02-numbers-{int(nc)}", files={"src/pk/__init__.py": "", "src/pk/m_num.py": "".join(lines)}, opts=["-nc"] if nc else [], meta={"part": "numbers", "feats": {"number-defaults": len(vals)}}, reach=REACH))
    # (vi) whole packages, each generated TWICE into the same output directory (the files of the second run are parsed):
    # every declaration form of C01's library, its package scenarios (names defined in another module, import forms,
    # encodings), general packages with re-exports and classes of other libraries
    from .. import pkggen as pg
    from ..scenarios import PACKAGE_SCENARIOS
    from . import c01, c10

    for i in range(2 if tier == "quick" else 40):
        ks = c01.kitchen_sink(rng_for(seed, PID, "kitchen-sink", i), gated, 70 + i)
        cases.append(Case(cid=f"c02-kitchen-{i}", files=ks, opts=[[], ["-nc", "--docstyle", "numpydoc"], ["--docstyle", "google"], ["-nc"]][i % 4], repeat=1 + i % 2, meta={"part": "whole-packages", "feats": {"kitchen-sink": 1}}, reach=REACH))
    for k, (feat, sfiles, optsets) in enumerate(PACKAGE_SCENARIOS):
        if feat in gated or feat.startswith("doc:hostile") or feat == "file:stub-and-namespace":
            # not in this property's quantifier: file names that are no module names; docstring fields that are no
            # types / literals (what the tool copies from them is the recorded finding KF-C02-docstring-default-verbatim)
            continue
        files = {"src/" + fk: ({"hex": fv.hex()} if isinstance(fv, bytes) else fv) for fk, fv in sfiles.items()}
        for oi, opts in enumerate(optsets if tier == "thorough" else optsets[:2]):
            cases.append(Case(cid=f"c02-scenario-{feat}-{oi}", files=files, opts=list(opts), repeat=1 + (k + oi) % 2, meta={"part": "whole-packages", "feats": {"scenario:" + feat: 1}}, reach=REACH))
    cfg = c10.make_cfg(gated)
    rng3 = rng_for(seed, PID, "general-packages")
    for i in range(4 if tier == "quick" else 120):
        cfg.local_foreign_lower = i % 2 == 0
        pkg = pg.random_pkg(rng3, cfg)
        cases.append(Case(cid=f"c02-general-{i}", files=pg.render(pkg), opts=["-nc"] if i % 2 else [], repeat=2, meta={"part": "whole-packages", "feats": {"general-package": 1}}, reach=REACH))
    terms = c05.depth2_terms()
    rng.shuffle(terms)
    items = [(t, pos) for t in terms[: 250 if tier == "quick" else 1200] for pos in ("param", "result", "cattr") if not (c05.features(t, pos) & gated) and not (pos == "result" and t[0] == "None")]
    cases.append(c05.build_case("c02-types", items, []))
    cases[-1].meta.update({"part": "types", "feats": {"type-terms": len(items)}})
    cases[-1].reach = REACH
    return cases


def deep_nesting_module(rng) -> str:
    """Classes nested to depth 4 with every combination of attributes / methods / nested classes / empty bodies."""
    out = ["from enum import Enum\n\n\n"]
    counter = [0]

    def cls(depth: int, indent: str) -> str:
        counter[0] += 1
        name = f"N{counter[0]}"
        body = []
        if rng.random() < 0.6:
            body.append(f"{indent}    at_{counter[0]}: int = 1\n")
        if rng.random() < 0.5:
            body.append(f"{indent}    def __init__(self, p: int = 0) -> None:\n{indent}        self.inst_{counter[0]}: str = 'x'\n\n")
        if rng.random() < 0.6:
            body.append(f"{indent}    def meth_{counter[0]}(self, q: list[int] | None = None) -> tuple[int, str]: ...\n\n")
        if rng.random() < 0.3:
            body.append(f"{indent}    @property\n{indent}    def prop_{counter[0]}(self) -> int: ...\n\n")
        if depth < 4:
            for _ in range(rng.choice([0, 1, 1, 2])):
                body.append(cls(depth + 1, indent + "    "))
        if not body:
            body.append(f"{indent}    pass\n")
        return f"{indent}class {name}:\n" + "".join(body) + "\n"

    for _ in range(rng.randint(3, 6)):
        out.append(cls(1, ""))
    out.append("class EmptyEnum(Enum):\n    pass\n\n\nclass OneEnum(Enum):\n    ONLY = 1\n")
    return "".join(out)


def make_judge(chk: Check):
    def judge(case: Case, rec: dict, probe=None) -> list[Viol]:
        viols = []
        ss = StubSet(rec["tree"])
        part = case.meta.get("part", "probe")
        for rel, e in ss.errors.items():
            text = rec["tree"][rel]
            line = text.split("\n")[e.line - 1] if 0 < e.line <= text.count("\n") + 1 else ""
            viols.append(Viol(e.rule, f"{part}:{_classify(e, line)}", {"file": rel, "msg": e.msg, "line": e.line, "text": line[:200]}))
        nq = 0
        for rel, m in ss.files.items():
            toks = sds.lex(rec["tree"][rel])
            q = sum(1 for t in toks if t.kind == "qid")
            nq += q
            nstr = sum(1 for t in toks if t.kind == "str")
            ncom = sum(len(t.leading) for t in toks)
            chk.counters["backquoted_identifiers"] += q
            chk.counters["string_tokens"] += nstr
            chk.counters["comment_tokens"] += ncom
            chk.counters["declarations_parsed"] += sum(1 for _ in m.walk())
            chk.case_ok(f"{part}:{rel.split('/')[-1]}:{min(q, 3)}:{min(nstr, 3)}:{min(ncom, 3)}")
        if part == "keywords" and nq < 20:
            chk.inconc(f"keyword matrix produced only {nq} back-quoted identifiers in {case.cid}")
        if ss.files:
            rel = sorted(ss.files)[0]
            chk.sample({"case": case.cid, "file": rel, "head": rec["tree"][rel][:400]}, limit=4)
        return viols

    return judge


def _classify(e: sds.SdsError, line: str) -> str:
    """Stable description of where a rejection happened (position kind, not values)."""
    s = line.strip()
    if e.rule == "unescaped-keyword":
        for what in ("enum variant", "enum name", "class name", "function name", "parameter name", "attribute name", "type name", "result name", "type parameter", "package segment", "import path segment", "imported name", "import alias", "literal"):
            if what in e.msg:
                return what.replace(" ", "-")
    if s.startswith("package") or s.startswith("from "):
        return "header"
    if e.rule in ("unterminated-string", "unterminated-comment"):
        return e.rule
    if "=" in s and '"' in s:
        return "string-default-or-literal"
    if "literal<" in s:
        return "literal-type"
    if s.startswith("*") or s.startswith("/*"):
        return "doc-comment"
    return "other"


def main(tier: str, seed: int) -> int:
    chk = Check(PID, tier, seed)
    cases = gen(tier, seed)
    judge = make_judge(chk)
    drive(chk, cases, judge, per_proc=2)
    feats: dict = {}
    for c in cases:
        for k, v in (c.meta.get("feats") or {}).items():
            if isinstance(v, int):
                feats[k] = feats.get(k, 0) + v
    chk.extra["workload_features"] = feats
    chk.extra["keyword_positions"] = [p for p in POSITIONS if f"ident:keyword@{p}" not in gated_features()]
    chk.extra["gated_features"] = sorted(f for f in gated_features() if f.split(":")[0] in ("ident", "default", "literal", "doc"))
    chk.extra["exhaustive_parts"] = "keyword matrix: 33 keywords x ungated positions x {direct, trailing-underscore, dunder} spellings"
    chk.run_probes(lambda c, r, probe=None: judge(c, r))
    chk.assumptions = [
        "the recogniser accepts what the property does not forbid (signed numbers, exponents, raw newlines in strings, list/map literals)",
        "template-string braces are not judged",
    ]
    return chk.finish(
        rule="one case = one emitted stub file parsed by the recogniser; distinct = (workload part, file, saturating counts of back-quoted identifiers / strings / comments); non-trivial = contains >=1 declaration",
        min_cases=40,
    )


def replay(path: str) -> int:
    return generic_replay(path, gen, make_judge)
