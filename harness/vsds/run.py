"""Parent-side launcher: materialises workspaces, runs batches of cases in subprocesses, returns records."""

from __future__ import annotations

import json
import os
import shutil
import subprocess
import tempfile
import time
from concurrent.futures import ThreadPoolExecutor
from dataclasses import dataclass, field

HARNESS = os.path.dirname(os.path.dirname(os.path.abspath(__file__)))
VERIF = os.path.dirname(HARNESS)
BOOT = os.path.join(HARNESS, "boot.py")
PY = os.environ.get("VSDS_PYTHON", "/venv/bin/python")
REPO = os.environ.get("VSDS_REPO", "/repo")
GUARD = "SAFEDS_STUBGEN_VERIF"
NWORKERS = int(os.environ.get("VSDS_WORKERS", "16"))


@dataclass
class Case:
    """One execution of the tool on one generated package.

    files     relpath (below the workspace) -> text.  By convention sources live under ``src/<pkg>/...``.
    src/out   workspace-relative paths handed to -s / -o (after 'spelling').
    opts      further CLI flags, e.g. ["--docstyle", "numpydoc", "-nc"].
    """

    cid: str
    files: dict
    src: str = "src/pk"
    out: str = "out"
    opts: list = field(default_factory=list)
    cwd: str = "cw"
    perturb: dict = field(default_factory=dict)
    src_spelling: str = "abs"  # abs | rel | abs_slash | rel_slash | dotdot
    out_spelling: str = "abs"
    plugin: str | None = None
    pre: str | None = None
    reach: object = None  # None | "*" | [qualnames]
    step_budget: int | None = None
    hashseed: str = "0"
    meta: dict = field(default_factory=dict)
    keep_out: bool = False  # do not wipe 'out' before (used for second runs into the same directory)
    ws_of: str | None = None  # reuse the workspace of another case id in the same batch (second CLI run)
    collect: bool = True
    repeat: int = 1  # number of CLI runs into the same output directory (the record describes the state after the last)


def _spell(kind: str, abs_path: str, cwd_abs: str) -> str:
    if kind == "abs":
        return abs_path
    if kind == "abs_slash":
        return abs_path + "/"
    rel = os.path.relpath(abs_path, cwd_abs)
    if kind == "rel":
        return rel
    if kind == "rel_slash":
        return rel + "/"
    if kind == "dotdot":
        base = os.path.basename(abs_path)
        return os.path.join(os.path.dirname(abs_path), base, "..", base)
    if kind == "rel_dot":
        return "./" + rel
    raise ValueError(kind)


class Workspace:
    def __init__(self) -> None:
        self.root = tempfile.mkdtemp(prefix="vsds_")

    def close(self) -> None:
        shutil.rmtree(self.root, ignore_errors=True)


def _materialise(root: str, files: dict) -> None:
    for rel, text in files.items():
        p = os.path.join(root, rel)
        os.makedirs(os.path.dirname(p), exist_ok=True)
        if text is None:
            os.makedirs(p, exist_ok=True)
            continue
        if isinstance(text, dict):  # {"hex": "..."}: bytes written verbatim (byte order marks, other encodings, CRLF)
            with open(p, "wb") as fh:
                fh.write(bytes.fromhex(text["hex"]))
            continue
        with open(p, "w", encoding="utf-8", newline="") as fh:
            fh.write(text)


def run_batch(cases: list[Case], timeout: float | None = None, steps="reach", env_extra: dict | None = None):
    """Run the cases, in order, inside ONE fresh subprocess.  Returns (records, monitors, error)."""
    ws = Workspace()
    try:
        specs = []
        roots = {}
        for c in cases:
            if c.ws_of is not None:
                croot = roots[c.ws_of]
            else:
                croot = os.path.join(ws.root, "w" + str(len(roots)))
                os.makedirs(croot)
                _materialise(croot, c.files)
            roots[c.cid] = croot
            cwd_abs = os.path.join(croot, c.cwd) if not os.path.isabs(c.cwd) else c.cwd
            os.makedirs(cwd_abs, exist_ok=True)
            src_abs = os.path.join(croot, c.src)
            out_abs = os.path.join(croot, c.out)
            argv = ["-s", _spell(c.src_spelling, src_abs, cwd_abs), "-o", _spell(c.out_spelling, out_abs, cwd_abs)]
            argv += list(c.opts)
            specs.append(
                {
                    "cid": c.cid,
                    "argv": argv,
                    "cwd": cwd_abs,
                    "out": out_abs,
                    "src_abs": src_abs,
                    "root": croot,
                    "perturb": c.perturb,
                    "plugin": c.plugin,
                    "pre": c.pre,
                    "reach": c.reach,
                    "step_budget": c.step_budget,
                    "collect": c.collect,
                    "repeat": c.repeat,
                },
            )
        job = os.path.join(ws.root, "job.json")
        res = os.path.join(ws.root, "res.json")
        with open(job, "w", encoding="utf-8") as fh:
            json.dump({"cases": specs, "steps": steps}, fh)
        env = {
            "PATH": os.environ.get("PATH", "/usr/bin:/bin"),
            "HOME": os.environ.get("HOME", "/root"),
            "PYTHONHASHSEED": str(cases[0].hashseed),
            "PYTHONPATH": os.path.join(REPO, "src"),
            "PYTHONDONTWRITEBYTECODE": "1",
            "PYTHONIOENCODING": "utf-8",
            "LC_ALL": "C.UTF-8",
            GUARD: os.environ.get(GUARD, "1"),
            "MYPY_CACHE_DIR": os.path.join(ws.root, ".mypy_cache"),
        }
        if env_extra:
            env.update(env_extra)
        to = timeout or (480 + 90 * len(cases))  # generous: a loaded machine must not turn a slow run into "inconclusive"
        if steps in (True, "all") and not timeout:
            # a run that does not terminate has to be able to use up its step budget before the wall clock ends it: the
            # verdict on non-termination is the logical one (violation), the watchdog only ever yields "inconclusive"
            to += int(sum(c.step_budget or 0 for c in cases) / 200_000)
        t0 = time.time()
        try:
            p = subprocess.run(  # noqa: S603
                [PY, BOOT, job, res],
                env=env,
                cwd=ws.root,
                stdout=subprocess.PIPE,
                stderr=subprocess.PIPE,
                timeout=to,
                check=False,
            )
        except subprocess.TimeoutExpired:
            return None, None, {"kind": "watchdog", "timeout": to, "cids": [c.cid for c in cases]}
        wall = time.time() - t0
        if not os.path.exists(res):
            return (
                None,
                None,
                {
                    "kind": "no-result",
                    "rc": p.returncode,
                    "stderr": p.stderr.decode("utf-8", "replace")[-3000:],
                    "cids": [c.cid for c in cases],
                },
            )
        with open(res, encoding="utf-8") as fh:
            data = json.load(fh)
        recs = data["results"]
        for r, c, s in zip(recs, cases, specs, strict=True):
            r["root"] = s["root"]
            r["out_abs"] = s["out"]
            r["src_abs"] = s["src_abs"]
            r["argv"] = s["argv"]
            r["hashseed"] = data.get("hashseed")
            r["proc_wall"] = wall
        return recs, data["monitors"], None
    finally:
        ws.close()


def run_many(batches: list[list[Case]], workers: int | None = None, steps="reach", progress=None, env_extra=None):
    """Run batches in parallel (one subprocess per batch).  Returns list of (cases, records, monitors, error)."""
    workers = workers or NWORKERS
    out = [None] * len(batches)

    def one(i):
        recs, mon, err = run_batch(batches[i], steps=steps, env_extra=env_extra)
        return i, recs, mon, err

    with ThreadPoolExecutor(max_workers=workers) as ex:
        for i, recs, mon, err in ex.map(one, range(len(batches))):
            out[i] = (batches[i], recs, mon, err)
            if progress:
                progress(i)
    return out


def chunk(cases: list[Case], n: int) -> list[list[Case]]:
    return [cases[i : i + n] for i in range(0, len(cases), n)]
