"""Shared oracle parts for C03 / C04 / C12: ground-truth package vs. parsed stub set and API JSON."""

from __future__ import annotations

import re

from . import pkggen as pg
from .core import Viol
from .stubs import StubSet, api_index

STUB_KIND = {
    "function": "fun",
    "method": "fun",
    "class": "class",
    "nested-class": "class",
    "enum": "enum",
    "variant": "variant",
    "cattr": "attr",
    "iattr": "attr",
    "property": "attr",
}


def occurrences(ss: StubSet, kind: str, paths: list[tuple]) -> list:
    """All stub declarations of the given stub kind whose Python-name path is one of ``paths``."""
    want = {"/".join(p) for p in paths}
    out = []
    for rel, m, d in ss.all_decls():
        if d.kind == kind and d.path() in want:
            out.append((rel, m, d))
    return out


def alias_paths(pkg: pg.Pkg, g: pg.GDecl) -> list[tuple]:
    """Paths under which the declaration may legitimately appear (own name, or the alias of a re-export of its
    top-level owner)."""
    top = g.path[0]
    tops = {top}
    for _p, res in pkg.inits.items():
        for r in res:
            if r.form == "name" and r.module == g.module.qname and r.name == top and r.alias:
                tops.add(r.alias)
    return [(t, *g.path[1:]) for t in sorted(tops)]


def allowed_py_modules(pkg: pg.Pkg, g: pg.GDecl, pub: pg.Publicity) -> set:
    out = {g.module.qname}
    for p in pub.reexport_pkgs:
        out.add(".".join(p))
    for p, res in pkg.inits.items():
        for r in res:
            if r.form == "modalias" and r.module == g.module.qname:
                out.add(".".join(p))
            if r.form == "star" and r.module == g.module.qname:
                out.add(".".join(p))
            if r.form == "name" and r.module == g.module.qname and r.name == g.path[0]:
                out.add(".".join(p))
    return out


def allowed_places(pkg: pg.Pkg, g: pg.GDecl) -> set:
    """(python module announced by the stub, top-level name there) pairs where the declaration may legitimately be."""
    top = g.path[0]
    out = {(g.module.qname, top)}
    for p, res in pkg.inits.items():
        for r in res:
            if r.module != g.module.qname:
                continue
            if r.form == "name" and r.name == top:
                out.add((".".join(p), r.alias or r.name))
            elif r.form in ("star", "modalias"):
                out.add((".".join(p), top))
    return out


def judge_presence(chk, pkg: pg.Pkg, ss: StubSet, pubs: dict, feature_of=lambda g: g.kind) -> list[Viol]:
    """C03: every public declaration exactly once, under its Python name, in an allowed place."""
    viols = []
    name_counts: dict = {}
    for g in pg.walk(pkg):
        name_counts[g.path] = name_counts.get(g.path, 0) + 1
    for g in pg.walk(pkg):
        if g.kind == "ctor":
            continue
        pub = pubs[g.id]
        if pub.public is not True:
            continue
        owner_cls = g.owner.obj if g.owner is not None else None
        if isinstance(g.obj, pg.Cls) and g.obj.is_exception:
            continue
        if owner_cls is not None and isinstance(owner_cls, pg.Cls) and owner_cls.is_exception:
            continue
        kind = STUB_KIND[g.kind]
        occ = occurrences(ss, kind, alias_paths(pkg, g))
        if name_counts.get(g.path, 1) > 1:
            # the same declaration path exists in another module of the package: tell the two apart by place and name
            places = allowed_places(pkg, g)
            occ = [o for o in occ if (o[1].py_module, o[2].path().split("/")[0]) in places]
        where = f"{g.kind}:{pub.via}"
        if len(occ) == 0:
            viols.append(Viol("public-declaration-missing", where, {"id": g.id, "public_via": pub.via, "reexported_by": [".".join(p) for p in pub.reexport_pkgs]}))
        elif len(occ) > 1:
            viols.append(Viol("declaration-emitted-twice", where, {"id": g.id, "files": [o[0] for o in occ]}))
        else:
            rel, m, d = occ[0]
            allowed = allowed_py_modules(pkg, g, pub)
            if m.py_module not in allowed:
                viols.append(Viol("declaration-misplaced", where, {"id": g.id, "file": rel, "python_module": m.py_module, "allowed": sorted(allowed)}))
        chk.case_ok(f"{g.kind}:{pub.via}:{len(g.path)}", ident=(id(pkg), g.id))
    # uniqueness within a file: no two members of one owner with the same Python name and kind
    for rel, m in ss.files.items():
        seen = set()
        for d in m.walk():
            key = (d.kind, d.path())
            if key in seen:
                viols.append(Viol("duplicate-in-file", d.kind, {"file": rel, "decl": d.path()}))
            seen.add(key)
    return viols


def judge_privacy(chk, pkg: pg.Pkg, ss: StubSet, pubs: dict, api: dict | None, text_search: bool = True) -> list[Viol]:
    """C04: no private declaration in any stub; JSON is_public == reference."""
    viols = []
    alltext = "\n".join(v for k, v in ss.tree.items() if k.endswith(".sdsstub"))
    aidx = api_index(api) if api else {}
    name_counts: dict = {}
    leaf_counts: dict = {}
    for g in pg.walk(pkg):
        name_counts[g.path] = name_counts.get(g.path, 0) + 1
        leaf_counts[g.name] = leaf_counts.get(g.name, 0) + 1
    # private classes that a public-named class derives from: their public-named members (methods, nested classes and
    # what those contain) are shown in the subclass by design (C17) - no leak; their private-named members stay private
    shown_bases = {b for g0 in pg.walk(pkg) if g0.kind in ("class", "nested-class") and not pg.is_private_name(g0.name) for b in getattr(g0.obj, "bases", []) if pg.is_private_name(b)}
    for g in pg.walk(pkg):
        pub = pubs[g.id]
        where = f"{g.kind}:{_why_private(pkg, g) if not pub.public else pub.via}"
        inherited_at = next((i for i, part in enumerate(g.path) if part in shown_bases), None)
        if pub.public is False and inherited_at is not None and len(g.path) > inherited_at + 1 and not any(pg.is_private_name(x) for x in g.path[inherited_at + 1 :]):
            chk.counters["members_shown_through_a_public_subclass_not_judged"] += 1
            continue
        if pub.public is False and g.kind != "ctor":
            kind = STUB_KIND[g.kind]
            occ = occurrences(ss, kind, alias_paths(pkg, g))
            unique = name_counts.get(g.path, 1) == 1 and leaf_counts.get(g.name, 1) == 1
            if not unique:
                # a declaration with the same path lives in another module: only an occurrence announced for this very
                # module counts here (the JSON comparison below tells same-named declarations apart by id)
                occ = [o for o in occ if o[1].py_module == g.module.qname]
            if occ:
                viols.append(Viol("private-declaration-leaked", where, {"id": g.id, "files": [o[0] for o in occ]}))
            elif unique and text_search and _token(g.name) and re.search(r"(?<![A-Za-z0-9_])_*" + re.escape(_token(g.name)) + r"_*(?![A-Za-z0-9_])", alltext):
                viols.append(Viol("private-name-in-stub-text", where, {"id": g.id, "name": g.name}))
            chk.case_ok(f"private:{where}", ident=(id(pkg), "p", g.id))
        if aidx:
            entry = None
            if g.kind in ("class", "nested-class"):
                entry = aidx.get("classes", {}).get(g.id)
            elif g.kind in ("function", "method", "property", "ctor"):
                entry = aidx.get("functions", {}).get(g.id)
            elif g.kind in ("cattr", "iattr"):
                entry = aidx.get("attributes", {}).get(g.id)
            if entry is not None and "is_public" in entry:
                expected = pub.public if g.kind != "ctor" else pubs[g.owner.id].public
                if expected is not None and entry["is_public"] != expected:
                    viols.append(Viol("json-is-public", where, {"id": g.id, "json": entry["is_public"], "expected": expected}))
                chk.case_ok(f"json:{where}", ident=(id(pkg), "j", g.id))
    return viols


def _token(name: str) -> str | None:
    core = name.strip("_")
    return core if len(core) >= 5 else None


def _why_private(pkg, g) -> str:
    if any(pg.is_private_name(s) for s in g.path[1:]):
        return "private-member" if pg.is_private_name(g.path[-1]) else "member-of-private"
    if pg.is_private_name(g.path[0]):
        return "private-name"
    if pg.is_private_name(g.module.name):
        return "private-module"
    return "private-package"
