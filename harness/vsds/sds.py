"""Independent recogniser for Safe-DS stub files (DESIGN.md section 3.3).

Hand-written lexer + recursive-descent parser written from the stub grammar; shares no code with the
generator under test.  It is deliberately *permissive* wherever the properties do not speak (number forms,
raw newlines in strings, unknown annotations) and strict where they do (one package line, balanced
brackets/braces, terminated comments and strings, legal identifiers, keywords back-quoted in identifier
position).
"""

from __future__ import annotations

import re
from dataclasses import dataclass, field

KEYWORDS = frozenset(
    """_ and annotation as attr class const enum false from fun import in internal literal not null or out
    package pipeline private schema static segment sub this true union unknown val where yield""".split(),
)
assert len(KEYWORDS) == 33

BUILTIN_TYPES = frozenset(["Int", "String", "Boolean", "Float", "Nothing", "Any", "List", "Map", "Set", "Tuple"])


class SdsError(Exception):
    def __init__(self, rule: str, msg: str, line: int, col: int) -> None:
        super().__init__(f"{rule} at {line}:{col}: {msg}")
        self.rule = rule
        self.msg = msg
        self.line = line
        self.col = col


@dataclass
class Tok:
    kind: str  # id | qid | str | num | punct | eof
    text: str
    line: int
    col: int
    pos: int
    leading: list = field(default_factory=list)  # comments (kind, text, line) seen before this token
    nl_before: int = 0  # number of newlines between previous token and this one


_ID_RE = re.compile(r"[A-Za-z_][A-Za-z0-9_]*")
_NUM_RE = re.compile(r"[0-9]+(?:\.[0-9]+)?(?:[eE][+-]?[0-9]+)?")
_PUNCT2 = ("->",)
_PUNCT1 = "(){}<>,:=?.@*[]-+"


def lex(text: str) -> list[Tok]:
    toks: list[Tok] = []
    i = 0
    n = len(text)
    line = 1
    col = 1
    pending: list = []
    nls = 0

    def adv(k: int) -> None:
        nonlocal i, line, col
        seg = text[i : i + k]
        c = seg.count("\n")
        if c:
            line += c
            col = len(seg) - seg.rfind("\n")
        else:
            col += k
        i += k

    while i < n:
        ch = text[i]
        if ch in " \t\r\n":
            if ch == "\n":
                nls += 1
            adv(1)
            continue
        if text.startswith("//", i):
            j = text.find("\n", i)
            if j < 0:
                j = n
            pending.append(("line", text[i:j], line))
            adv(j - i)
            continue
        if text.startswith("/*", i):
            j = text.find("*/", i + 2)
            if j < 0:
                raise SdsError("unterminated-comment", "block comment is never closed", line, col)
            pending.append(("block", text[i : j + 2], line))
            nls += text.count("\n", i, j + 2)
            adv(j + 2 - i)
            continue
        start_line, start_col, start = line, col, i
        if ch == '"':
            j = i + 1
            while True:
                if j >= n:
                    raise SdsError("unterminated-string", "string literal is never closed", start_line, start_col)
                c = text[j]
                if c == "\\":
                    j += 2
                    continue
                if c == '"':
                    break
                j += 1
            tok = Tok("str", text[i : j + 1], start_line, start_col, start)
            adv(j + 1 - i)
        elif ch == "`":
            m = _ID_RE.match(text, i + 1)
            if not m or m.end() >= n or text[m.end()] != "`":
                raise SdsError("illegal-identifier", "malformed back-quoted identifier", start_line, start_col)
            tok = Tok("qid", m.group(0), start_line, start_col, start)
            adv(m.end() + 1 - i)
        elif ch.isascii() and (ch.isalpha() or ch == "_"):
            m = _ID_RE.match(text, i)
            tok = Tok("id", m.group(0), start_line, start_col, start)
            adv(m.end() - i)
            if i < n and not text[i].isascii() and (text[i].isalnum()):
                raise SdsError("illegal-identifier", f"non-ASCII character {text[i]!r} in identifier", line, col)
        elif ch.isdigit():
            m = _NUM_RE.match(text, i)
            tok = Tok("num", m.group(0), start_line, start_col, start)
            adv(m.end() - i)
            if i < n and (text[i] == "_" or (text[i].isalnum())):
                raise SdsError(
                    "illegal-identifier",
                    f"identifier-like token starting with a digit: {text[start: i + 8]!r}",
                    start_line,
                    start_col,
                )
        elif text.startswith(_PUNCT2, i):
            tok = Tok("punct", text[i : i + 2], start_line, start_col, start)
            adv(2)
        elif ch in _PUNCT1:
            tok = Tok("punct", ch, start_line, start_col, start)
            adv(1)
        else:
            raise SdsError("illegal-character", f"character {ch!r} cannot start a token", start_line, start_col)
        tok.leading = pending
        tok.nl_before = nls
        pending = []
        nls = 0
        toks.append(tok)
    eof = Tok("eof", "", line, col, n)
    eof.leading = pending
    toks.append(eof)
    return toks


# --------------------------------------------------------------------------------------------------
# AST
# --------------------------------------------------------------------------------------------------


@dataclass
class Type:
    kind: str  # named | union | literal | callable | unknown
    name: str = ""
    args: list = field(default_factory=list)  # named: type args; union: members
    nullable: bool = False
    literals: list = field(default_factory=list)  # literal tokens (kind, text)
    params: list = field(default_factory=list)  # callable: Param
    results: list = field(default_factory=list)  # callable: Result
    quoted: bool = False

    def names(self):
        """All class names referenced (named types), recursively."""
        if self.kind == "named":
            yield self
            for a in self.args:
                yield from a.names()
        elif self.kind == "union":
            for a in self.args:
                yield from a.names()
        elif self.kind == "callable":
            for p in self.params:
                if p.type:
                    yield from p.type.names()
            for r in self.results:
                if r.type:
                    yield from r.type.names()

    def render(self) -> str:
        if self.kind == "named":
            s = self.name
            if self.args:
                s += "<" + ", ".join(a.render() for a in self.args) + ">"
            return s + ("?" if self.nullable else "")
        if self.kind == "union":
            return "union<" + ", ".join(a.render() for a in self.args) + ">"
        if self.kind == "literal":
            return "literal<" + ", ".join(t for _, t in self.literals) + ">"
        if self.kind == "unknown":
            return "unknown"
        ps = ", ".join(f"{p.name}: {p.type.render() if p.type else ''}" for p in self.params)
        rs = ", ".join(f"{r.name}: {r.type.render() if r.type else ''}" for r in self.results)
        return f"({ps}) -> ({rs})"


@dataclass
class Param:
    name: str
    pyname: str
    type: Type | None
    default: tuple | None  # (kind, text) kinds: str num true false null unknown id ; text includes sign
    annotations: dict
    quoted: bool = False
    line: int = 0


@dataclass
class Result:
    name: str
    type: Type | None
    quoted: bool = False


@dataclass
class TParam:
    name: str
    variance: str  # "" | in | out
    bound: Type | None
    quoted: bool = False


@dataclass
class Decl:
    kind: str  # class | fun | enum | attr | variant
    name: str
    pyname: str
    quoted: bool
    annotations: dict
    comments: list  # (kind, text, line) in source order
    line: int
    static: bool = False
    params: list | None = None  # class: None means "no constructor list"
    results: list = field(default_factory=list)
    tparams: list = field(default_factory=list)
    supers: list = field(default_factory=list)
    members: list = field(default_factory=list)
    type: Type | None = None
    has_body: bool = False
    dangling: list = field(default_factory=list)  # comments before the closing brace
    owner: object = None

    @property
    def doc(self) -> str | None:
        blocks = [t for k, t, _ in self.comments if k == "block"]
        return "\n".join(blocks) if blocks else None

    @property
    def todos(self) -> list[str]:
        return [t[2:].strip() for k, t, _ in self.comments if k == "line"]

    def path(self) -> str:
        parts = []
        d = self
        while isinstance(d, Decl):
            parts.append(d.pyname)
            d = d.owner
        return "/".join(reversed(parts))

    def walk(self):
        yield self
        for m in self.members:
            yield from m.walk()


@dataclass
class Module:
    package: str  # as emitted (dotted, back-quotes removed)
    py_module: str  # @PythonModule argument if present else package
    annotations: dict
    imports: list  # (from, name, alias)
    decls: list
    header_comments: list
    dangling: list
    package_quoted_segments: list = field(default_factory=list)

    def walk(self):
        for d in self.decls:
            yield from d.walk()


# --------------------------------------------------------------------------------------------------
# parser
# --------------------------------------------------------------------------------------------------


def unquote_string(tok_text: str) -> str:
    """Decode a STRING token (escape sequences of the Safe-DS lexer)."""
    body = tok_text[1:-1]
    out = []
    i = 0
    esc = {"n": "\n", "t": "\t", "r": "\r", "b": "\b", "f": "\f", "v": "\v", "0": "\0", '"': '"', "'": "'", "\\": "\\", "{": "{"}
    while i < len(body):
        c = body[i]
        if c == "\\" and i + 1 < len(body):
            nxt = body[i + 1]
            if nxt == "u" and i + 5 < len(body) + 0 and re.fullmatch(r"[0-9a-fA-F]{4}", body[i + 2 : i + 6] or ""):
                out.append(chr(int(body[i + 2 : i + 6], 16)))
                i += 6
                continue
            out.append(esc.get(nxt, nxt))
            i += 2
        else:
            out.append(c)
            i += 1
    return "".join(out)


class Parser:
    def __init__(self, text: str) -> None:
        self.text = text
        self.toks = lex(text)
        self.i = 0

    # -- token helpers
    @property
    def t(self) -> Tok:
        return self.toks[self.i]

    def peek(self, k: int = 1) -> Tok:
        j = min(self.i + k, len(self.toks) - 1)
        return self.toks[j]

    def err(self, rule: str, msg: str, tok: Tok | None = None):
        tok = tok or self.t
        raise SdsError(rule, msg, tok.line, tok.col)

    def is_p(self, s: str) -> bool:
        return self.t.kind == "punct" and self.t.text == s

    def is_kw(self, s: str) -> bool:
        return self.t.kind == "id" and self.t.text == s

    def eat_p(self, s: str) -> Tok:
        if not self.is_p(s):
            self.err("unexpected-token", f"expected {s!r}, found {self.t.text!r}")
        tok = self.t
        self.i += 1
        return tok

    def eat_kw(self, s: str) -> Tok:
        if not self.is_kw(s):
            self.err("unexpected-token", f"expected keyword {s!r}, found {self.t.text!r}")
        tok = self.t
        self.i += 1
        return tok

    def ident(self, what: str) -> tuple[str, bool, Tok]:
        tok = self.t
        if tok.kind == "qid":
            self.i += 1
            return tok.text, True, tok
        if tok.kind == "id":
            if tok.text in KEYWORDS:
                self.err("unescaped-keyword", f"keyword {tok.text!r} used as {what} without back-quotes")
            self.i += 1
            return tok.text, False, tok
        self.err("unexpected-token", f"expected identifier ({what}), found {tok.text!r}")
        raise AssertionError

    def qname(self, what: str) -> tuple[str, list]:
        parts = []
        quoted = []
        name, q, _ = self.ident(what)
        parts.append(name)
        quoted.append(q)
        while self.is_p(".") and self.peek().kind in ("id", "qid"):
            self.i += 1
            name, q, _ = self.ident(what)
            parts.append(name)
            quoted.append(q)
        return ".".join(parts), quoted

    # -- grammar
    def annotations(self) -> tuple[dict, list]:
        anns: dict = {}
        comments: list = []
        while self.is_p("@"):
            self.i += 1
            if self.t.kind != "id":
                self.err("unexpected-token", "annotation name expected")
            name = self.t.text
            self.i += 1
            args = []
            if self.is_p("("):
                self.i += 1
                while not self.is_p(")"):
                    args.append(self.literal())
                    if self.is_p(","):
                        self.i += 1
                    elif not self.is_p(")"):
                        self.err("unexpected-token", "',' or ')' expected in annotation arguments")
                self.eat_p(")")
            anns.setdefault(name, []).append(args)
        return anns, comments

    def literal(self) -> tuple[str, str]:
        tok = self.t
        if tok.kind == "str":
            self.i += 1
            return ("str", tok.text)
        if tok.kind == "punct" and tok.text == "[":
            self.i += 1
            items = []
            while not self.is_p("]"):
                if self.t.kind == "eof":
                    self.err("unbalanced-bracket", "list literal is never closed")
                items.append(self.literal())
                if self.is_p(","):
                    self.i += 1
                elif not self.is_p("]"):
                    self.err("unexpected-token", "',' or ']' expected in list literal")
            self.eat_p("]")
            return ("list", "[" + ", ".join(t for _, t in items) + "]")
        if tok.kind == "punct" and tok.text == "{":
            self.i += 1
            items = []
            while not self.is_p("}"):
                if self.t.kind == "eof":
                    self.err("unbalanced-brace", "map literal is never closed")
                k = self.literal()
                self.eat_p(":")
                v = self.literal()
                items.append(f"{k[1]}: {v[1]}")
                if self.is_p(","):
                    self.i += 1
                elif not self.is_p("}"):
                    self.err("unexpected-token", "',' or '}' expected in map literal")
            self.eat_p("}")
            return ("map", "{" + ", ".join(items) + "}")
        sign = ""
        if tok.kind == "punct" and tok.text in "+-":
            sign = tok.text
            self.i += 1
            tok = self.t
            if tok.kind == "num":
                self.i += 1
                return ("num", sign + tok.text)
            if tok.kind == "id" and tok.text in ("inf", "nan"):
                self.i += 1
                return ("id", sign + tok.text)
            self.err("unexpected-token", "number expected after sign")
        if tok.kind == "num":
            self.i += 1
            return ("num", tok.text)
        if tok.kind == "id":
            if tok.text in ("true", "false", "null", "unknown"):
                self.i += 1
                return (tok.text, tok.text)
            if tok.text in KEYWORDS:
                self.err("unescaped-keyword", f"keyword {tok.text!r} in literal position")
            self.i += 1
            return ("id", tok.text)
        self.err("unexpected-token", f"literal expected, found {tok.text!r}")
        raise AssertionError

    def type_(self) -> Type:
        tok = self.t
        if tok.kind == "id" and tok.text == "union" and self.peek().kind == "punct" and self.peek().text == "<":
            self.i += 2
            members = []
            while not self.is_p(">"):
                members.append(self.type_())
                if self.is_p(","):
                    self.i += 1
                elif not self.is_p(">"):
                    self.err("unexpected-token", "',' or '>' expected in union")
            self.eat_p(">")
            return Type("union", args=members)
        if tok.kind == "id" and tok.text == "literal" and self.peek().kind == "punct" and self.peek().text == "<":
            self.i += 2
            lits = []
            while not self.is_p(">"):
                lits.append(self.literal())
                if self.is_p(","):
                    self.i += 1
                elif not self.is_p(">"):
                    self.err("unexpected-token", "',' or '>' expected in literal type")
            self.eat_p(">")
            return Type("literal", literals=lits)
        if tok.kind == "id" and tok.text == "unknown":
            self.i += 1
            return Type("unknown")
        if self.is_p("("):
            self.i += 1
            params = self.param_list(")")
            self.eat_p(")")
            self.eat_p("->")
            results = self.result_list()
            return Type("callable", params=params, results=results)
        name, quoted = self.qname("type name")
        args = []
        if self.is_p("<"):
            self.i += 1
            while not self.is_p(">"):
                args.append(self.type_())
                if self.is_p(","):
                    self.i += 1
                elif not self.is_p(">"):
                    self.err("unexpected-token", "',' or '>' expected in type arguments")
            self.eat_p(">")
        nullable = False
        if self.is_p("?"):
            self.i += 1
            nullable = True
        return Type("named", name=name, args=args, nullable=nullable, quoted=any(quoted))

    def param_list(self, closer: str) -> list[Param]:
        params = []
        while not self.is_p(closer):
            anns, _c = self.annotations()
            name, q, tok = self.ident("parameter name")
            typ = None
            default = None
            if self.is_p(":"):
                self.i += 1
                typ = self.type_()
            if self.is_p("="):
                self.i += 1
                default = self.literal()
            py = name
            if "PythonName" in anns and anns["PythonName"][0] and anns["PythonName"][0][0][0] == "str":
                py = unquote_string(anns["PythonName"][0][0][1])
            params.append(Param(name, py, typ, default, anns, q, tok.line))
            if self.is_p(","):
                self.i += 1
            elif not self.is_p(closer):
                self.err("unexpected-token", f"',' or {closer!r} expected in parameter list, found {self.t.text!r}")
        return params

    def result_list(self) -> list[Result]:
        if self.is_p("("):
            self.i += 1
            res = []
            while not self.is_p(")"):
                res.append(self.result())
                if self.is_p(","):
                    self.i += 1
                elif not self.is_p(")"):
                    self.err("unexpected-token", "',' or ')' expected in result list")
            self.eat_p(")")
            return res
        return [self.result()]

    def result(self) -> Result:
        name, q, _ = self.ident("result name")
        typ = None
        if self.is_p(":"):
            self.i += 1
            typ = self.type_()
        return Result(name, typ, q)

    def tparams(self) -> list[TParam]:
        out = []
        self.eat_p("<")
        while not self.is_p(">"):
            variance = ""
            if self.t.kind == "id" and self.t.text in ("in", "out") and self.peek().kind in ("id", "qid"):
                variance = self.t.text
                self.i += 1
            name, q, _ = self.ident("type parameter")
            bound = None
            if self.is_kw("sub"):
                self.i += 1
                bound = self.type_()
            out.append(TParam(name, variance, bound, q))
            if self.is_p(","):
                self.i += 1
            elif not self.is_p(">"):
                self.err("unexpected-token", "',' or '>' expected in type parameters")
        self.eat_p(">")
        return out

    @staticmethod
    def _pyname(anns: dict, name: str) -> str:
        a = anns.get("PythonName")
        if a and a[0] and a[0][0][0] == "str":
            return unquote_string(a[0][0][1])
        return name

    def _comments_between(self, start: int, end: int) -> list:
        out = []
        for tok in self.toks[start : end + 1]:
            out += tok.leading
        return out

    def decl(self, owner, in_enum: bool = False) -> Decl:
        start = self.i
        anns, _ = self.annotations()
        if in_enum:
            comments = self._comments_between(start, self.i)
            name, q, tok = self.ident("enum variant")
            return Decl("variant", name, self._pyname(anns, name), q, anns, comments, tok.line, owner=owner)
        static = False
        if self.is_kw("static"):
            static = True
            self.i += 1
        comments = self._comments_between(start, self.i)
        tok = self.t
        if self.is_kw("class"):
            self.i += 1
            name, q, ntok = self.ident("class name")
            d = Decl("class", name, self._pyname(anns, name), q, anns, comments, ntok.line, static=static, owner=owner)
            if self.is_p("<"):
                d.tparams = self.tparams()
            if self.is_p("("):
                self.i += 1
                d.params = self.param_list(")")
                self.eat_p(")")
            if self.is_kw("sub"):
                self.i += 1
                d.supers.append(self.type_())
                while self.is_p(","):
                    self.i += 1
                    d.supers.append(self.type_())
            if self.is_p("{"):
                self.i += 1
                d.has_body = True
                while not self.is_p("}"):
                    if self.t.kind == "eof":
                        self.err("unbalanced-brace", f"class {name!r} is never closed")
                    d.members.append(self.decl(d))
                d.dangling = list(self.t.leading)
                self.eat_p("}")
            return d
        if self.is_kw("fun"):
            self.i += 1
            name, q, ntok = self.ident("function name")
            d = Decl("fun", name, self._pyname(anns, name), q, anns, comments, ntok.line, static=static, owner=owner)
            if self.is_p("<"):
                d.tparams = self.tparams()
            self.eat_p("(")
            d.params = self.param_list(")")
            self.eat_p(")")
            if self.is_p("->"):
                self.i += 1
                d.results = self.result_list()
            return d
        if self.is_kw("enum"):
            self.i += 1
            name, q, ntok = self.ident("enum name")
            d = Decl("enum", name, self._pyname(anns, name), q, anns, comments, ntok.line, static=static, owner=owner)
            if self.is_p("{"):
                self.i += 1
                d.has_body = True
                while not self.is_p("}"):
                    if self.t.kind == "eof":
                        self.err("unbalanced-brace", f"enum {name!r} is never closed")
                    d.members.append(self.decl(d, in_enum=True))
                    if self.is_p(","):
                        self.i += 1
                d.dangling = list(self.t.leading)
                self.eat_p("}")
            return d
        if self.is_kw("attr"):
            if owner is None:
                self.err("unexpected-token", "attribute outside a class")
            self.i += 1
            name, q, ntok = self.ident("attribute name")
            d = Decl("attr", name, self._pyname(anns, name), q, anns, comments, ntok.line, static=static, owner=owner)
            if self.is_p(":"):
                self.i += 1
                d.type = self.type_()
            return d
        if tok.kind == "eof":
            self.err("unexpected-eof", "declaration expected")
        self.err("unexpected-token", f"declaration expected, found {tok.text!r}")
        raise AssertionError

    def module(self) -> Module:
        start = self.i
        anns, _ = self.annotations()
        header_comments = self._comments_between(start, self.i)
        if not self.is_kw("package"):
            self.err("missing-package", f"'package' expected, found {self.t.text!r}")
        self.i += 1
        package, quoted = self.qname("package segment")
        py_module = package
        a = anns.get("PythonModule")
        if a and a[0] and a[0][0][0] == "str":
            py_module = unquote_string(a[0][0][1])
        imports = []
        while self.is_kw("from"):
            self.i += 1
            frm, _q = self.qname("import path segment")
            self.eat_kw("import")
            name, _q2, _ = self.ident("imported name")
            alias = None
            if self.is_kw("as"):
                self.i += 1
                alias, _q3, _ = self.ident("import alias")
            imports.append((frm, name, alias))
        decls = []
        while self.t.kind != "eof":
            if self.is_kw("package"):
                self.err("repeated-package", "second package declaration")
            if self.is_p("}"):
                self.err("unbalanced-brace", "closing brace without opening brace")
            decls.append(self.decl(None))
        return Module(package, py_module, anns, imports, decls, header_comments, list(self.t.leading), quoted)


def parse(text: str) -> Module:
    return Parser(text).module()


def try_parse(text: str):
    """Returns (module, None) or (None, SdsError)."""
    try:
        return parse(text), None
    except SdsError as e:
        return None, e
    except RecursionError:
        return None, SdsError("too-deep", "nesting too deep for the recogniser", 0, 0)


# --------------------------------------------------------------------------------------------------
# helpers on comments
# --------------------------------------------------------------------------------------------------


def doc_lines(doc: str | None) -> list[str]:
    """Strip the comment frame of a /** ... */ block: returns the text lines."""
    if not doc:
        return []
    out = []
    for block in re.findall(r"/\*\*?(.*?)\*/", doc, flags=re.S):
        for ln in block.split("\n"):
            s = ln.strip()
            if s.startswith("*"):
                s = s[1:]
                if s.startswith(" "):
                    s = s[1:]
            out.append(s)
    while out and out[0] == "":
        out.pop(0)
    while out and out[-1] == "":
        out.pop()
    return out


def decode_literal(lit: tuple[str, str]):
    """Value of a literal token pair, as a (python value, exact type name) pair."""
    kind, text = lit
    if kind == "str":
        return unquote_string(text), "str"
    if kind == "true":
        return True, "bool"
    if kind == "false":
        return False, "bool"
    if kind == "null":
        return None, "none"
    if kind == "unknown":
        return "<unknown>", "unknown"
    if kind == "num":
        if re.fullmatch(r"[+-]?[0-9]+", text):
            return int(text), "int"
        return float(text), "float"
    if kind == "id":
        t = text.lstrip("+-")
        if t in ("inf", "nan"):
            return float(text), "float"
        return text, "id"
    return text, kind
