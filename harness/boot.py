"""In-subprocess bootstrap: installs the monitors, then drives the REAL safeds_stubgen entry points.

Executed as a script:  python /verif/harness/boot.py <job.json> <result.json>
(sys.path[0] is /verif/harness, which is never an ancestor of a workspace -- see DESIGN.md section 2.)

A job holds a list of cases; each case is executed in order inside this one process.  For every case the
monitors record what happened (outcome, exception origin, file-effect ledger, log records, step count,
reach counters, output tree) and the record is written to <result.json>.  Nothing here decides a property:
this file only observes and perturbs; verdicts are taken by the checkers in the parent process.
"""

from __future__ import annotations

import hashlib
import io
import json
import logging
import os
import random
import sys
import time
import traceback

GUARD = "SAFEDS_STUBGEN_VERIF"

# --------------------------------------------------------------------------------------------------
# monitor state (process local, single threaded)
# --------------------------------------------------------------------------------------------------

STATE = {
    "case": None,  # current case record
    "dir_rng": None,  # random.Random for directory-order perturbation (M4) or None
    "dir_mode": None,
    "set_seed": None,  # seed for set-order perturbation (M5) or None
    "steps": 0,
    "budget": None,
    "reach": {},
    "ws": None,
}

TOOL_DIR = None  # filled after import


class StepBudgetExceeded(BaseException):
    """Raised by the step monitor (M2) when a run exceeds its logical-step budget."""


# ---------------------------------------------------------------- M3: file-effect ledger (audit hook)

_WRITE_FLAGS = os.O_WRONLY | os.O_RDWR | os.O_CREAT | os.O_TRUNC | os.O_APPEND


def _audit(event, args):
    case = STATE["case"]
    if case is None:
        return
    try:
        if event == "open":
            path, mode, flags = args
            if not isinstance(path, (str, bytes, os.PathLike)):
                return
            p = os.fsdecode(path)
            writing = False
            kind = None
            if isinstance(mode, str):
                if any(c in mode for c in "wax+"):
                    writing = True
                    kind = mode
            elif isinstance(flags, int) and flags & _WRITE_FLAGS:
                writing = True
                kind = "os.open"
            if not writing:
                return
            ap = os.path.realpath(os.path.join(os.getcwd(), p))
            if "/.mypy_cache" in ap or ap == os.devnull:
                return
            before = None
            if isinstance(mode, str) and os.path.isfile(ap):
                # content the file holds *before* this open (what an earlier write of this run left there)
                try:
                    with io.open(ap, "r", encoding="utf-8", errors="replace") as fh:  # noqa: UP020
                        before = fh.read()
                except OSError:
                    before = None
            case["ledger"].append({"ev": "open", "path": ap, "spelled": p, "mode": kind, "before": before})
        elif event in ("os.mkdir", "os.remove", "os.rename", "os.rmdir", "shutil.rmtree"):
            p = args[0]
            if isinstance(p, (str, bytes, os.PathLike)):
                ap = os.path.realpath(os.path.join(os.getcwd(), os.fsdecode(p)))
                if "/.mypy_cache" in ap:
                    return
                case["ledger"].append({"ev": event, "path": ap})
        elif event in ("os.listdir", "os.scandir"):
            case["enum"] += 1
    except Exception:  # the audit hook must never disturb the program
        pass


# ---------------------------------------------------------------- M4: directory-order injector

_real_scandir = os.scandir
_real_listdir = os.listdir


class _ScandirProxy:
    def __init__(self, entries):
        self._entries = entries
        self._it = iter(entries)

    def __iter__(self):
        return self

    def __next__(self):
        return next(self._it)

    def __enter__(self):
        return self

    def __exit__(self, *a):
        return False

    def close(self):
        pass


def _permute(names, key=lambda x: x):
    rng = STATE["dir_rng"]
    mode = STATE["dir_mode"]
    if rng is None:
        return names
    names = list(names)
    if mode == "sorted":
        names.sort(key=key)
    elif mode == "reversed":
        names.sort(key=key, reverse=True)
    elif mode == "init_last":
        names.sort(key=lambda e: (key(e) == "__init__.py", key(e)))
    else:
        names.sort(key=key)
        rng.shuffle(names)
    case = STATE["case"]
    if case is not None:
        case["dir_perm"] += 1
    return names


def _scandir(path="."):
    if STATE["dir_rng"] is None:
        return _real_scandir(path)
    with _real_scandir(path) as it:
        entries = list(it)
    return _ScandirProxy(_permute(entries, key=lambda e: e.name))


def _listdir(path="."):
    res = _real_listdir(path)
    if STATE["dir_rng"] is None:
        return res
    return _permute(res)


# ---------------------------------------------------------------- M5: set-order injector


class ShuffledSet(set):
    """A set whose iteration order is a seeded permutation (membership/equality/len unchanged)."""

    _seed = 0

    def __iter__(self):
        items = list(set.__iter__(self))
        try:
            items.sort(key=lambda x: getattr(x, "id", None) or str(x))
        except Exception:
            pass
        seed = STATE["set_seed"] or 0
        random.Random(f"{seed}:{len(items)}").shuffle(items)
        case = STATE["case"]
        if case is not None:
            case["set_iter"] += 1
        return iter(items)

    def __reduce_ex__(self, proto):
        return (ShuffledSet, (list(set.__iter__(self)),))


def _install_set_injector(mon):
    """Wrap API.__init__ and _get_api._get_aliases so the two package-wide tables hold ShuffledSets."""
    from collections import defaultdict

    ok = {"reexport_map": False, "aliases": False}
    try:
        from safeds_stubgen.api_analyzer import _api as api_mod

        orig_init = api_mod.API.__init__

        def patched_init(self, *a, **k):
            orig_init(self, *a, **k)
            if STATE["set_seed"] is not None and isinstance(getattr(self, "reexport_map", None), dict):
                self.reexport_map = defaultdict(ShuffledSet)

        api_mod.API.__init__ = patched_init
        ok["reexport_map"] = True
    except Exception as e:  # supplementary monitor: report, never fail
        ok["reexport_map_error"] = repr(e)
    try:
        from safeds_stubgen.api_analyzer import _get_api as ga

        orig_aliases = ga._get_aliases

        def patched_aliases(*a, **k):
            res = orig_aliases(*a, **k)
            if STATE["set_seed"] is not None and isinstance(res, dict):
                for key in list(res):
                    if isinstance(res[key], set):
                        res[key] = ShuffledSet(res[key])
            return res

        ga._get_aliases = patched_aliases
        ok["aliases"] = True
    except Exception as e:
        ok["aliases_error"] = repr(e)
    mon["M5"] = ok


# ---------------------------------------------------------------- M9: log capture


class _LogCapture(logging.Handler):
    def emit(self, record):
        case = STATE["case"]
        if case is None:
            return
        try:
            msg = record.getMessage()
        except Exception:
            msg = str(record.msg)
        case["logs"].append([record.name, record.levelname, msg])


# ---------------------------------------------------------------- M2 / M10: steps and reach (sys.monitoring)

_code_is_tool = {}


def _py_start_reach(code, offset):
    """Reach counters only (M10): non-tool code objects are disabled after their first event."""
    t = _code_is_tool.get(code)
    if t is None:
        t = _code_is_tool[code] = bool(TOOL_DIR) and code.co_filename.startswith(TOOL_DIR)
    if not t:
        return sys.monitoring.DISABLE
    r = STATE["reach"]
    q = code.co_qualname
    r[q] = r.get(q, 0) + 1
    return None


def _jump(code, offset, dest):
    """Backward/forward jumps inside the tool's own code: loops without calls still make progress visible (M2)."""
    STATE["steps"] += 1
    b = STATE["budget"]
    if b is not None and STATE["steps"] > b:
        STATE["budget"] = None
        raise StepBudgetExceeded(f"more than {b} steps (function starts + jumps in tool code)")


def _py_start(code, offset):
    STATE["steps"] += 1
    t = _code_is_tool.get(code)
    if t is None:
        t = _code_is_tool[code] = bool(TOOL_DIR) and code.co_filename.startswith(TOOL_DIR)
        if t:
            try:
                sys.monitoring.set_local_events(3, code, sys.monitoring.events.JUMP)
            except Exception:  # noqa: BLE001, S110
                pass
    if t:
        r = STATE["reach"]
        q = code.co_qualname
        r[q] = r.get(q, 0) + 1
    b = STATE["budget"]
    if b is not None and STATE["steps"] > b:
        STATE["budget"] = None
        raise StepBudgetExceeded(f"more than {b} Python function starts")


def _install_step_monitor(mon, mode="all"):
    try:
        m = sys.monitoring
        tool = 3
        m.use_tool_id(tool, "vsds")
        m.register_callback(tool, m.events.PY_START, _py_start if mode == "all" else _py_start_reach)
        if mode == "all":
            m.register_callback(tool, m.events.JUMP, _jump)
        m.set_events(tool, m.events.PY_START)
        mon["M2"] = {"attached": True, "mode": mode}
    except Exception as e:
        mon["M2"] = {"attached": False, "error": repr(e)}


# ---------------------------------------------------------------- M1: outcome / exception origin


def _exc_info(e):
    tb = e.__traceback__
    frames = traceback.extract_tb(tb)
    tool_fn = None
    tool_line = None
    layer = "other"
    seq = []
    walk = tb
    innermost_tool = None
    last_file = None
    while walk is not None:
        co = walk.tb_frame.f_code
        fn = co.co_filename
        last_file = fn
        if TOOL_DIR and fn.startswith(TOOL_DIR):
            innermost_tool = (co.co_qualname, os.path.relpath(fn, TOOL_DIR), walk.tb_lineno)
        walk = walk.tb_next
    if innermost_tool:
        tool_fn, tool_file, tool_line = innermost_tool
    else:
        tool_file = None
    if last_file:
        if TOOL_DIR and last_file.startswith(TOOL_DIR):
            layer = "tool"
        elif "/mypy/" in last_file or "mypy" in os.path.basename(last_file):
            layer = "mypy"
        elif "/griffe/" in last_file:
            layer = "griffe"
        elif "/lib/python" in last_file:
            layer = "stdlib"
    for f in frames[-8:]:
        seq.append(f"{os.path.basename(f.filename)}:{f.lineno}:{f.name}")
    return {
        "type": type(e).__name__,
        "module": type(e).__module__,
        "msg": str(e)[:500],
        "tool_function": tool_fn,
        "tool_file": tool_file,
        "tool_line": tool_line,
        "layer": layer,
        "frames": seq,
    }


# ---------------------------------------------------------------- output tree


def _read_tree(root):
    out = {}
    if not os.path.isdir(root):
        return out
    for d, _dirs, files in os.walk(root):
        for f in files:
            p = os.path.join(d, f)
            rel = os.path.relpath(p, root)
            try:
                with open(p, "rb") as fh:
                    data = fh.read()
                out[rel] = data.decode("utf-8", errors="surrogateescape")
            except OSError as e:
                out[rel] = f"<<unreadable {e}>>"
    return out


def _digest(tree):
    h = hashlib.sha256()
    for k in sorted(tree):
        h.update(k.encode())
        h.update(b"\0")
        h.update(tree[k].encode("utf-8", errors="surrogateescape"))
        h.update(b"\0")
    return h.hexdigest()


# ---------------------------------------------------------------- drivers


def _run_cli(case_spec, rec):
    from safeds_stubgen.main import main

    argv = ["safe-ds-stubgen", *case_spec["argv"]]
    old_argv = sys.argv
    sys.argv = argv
    old_out = sys.stdout
    sys.stdout = io.StringIO()
    try:
        main()
    finally:
        sys.argv = old_argv
        sys.stdout = old_out


def _run_plugin(case_spec, rec):
    """Run a python snippet supplied by the check (used for API-level drivers: C16, C19, C09 contracts)."""
    ns = {"STATE": STATE, "rec": rec, "case": case_spec, "__name__": "__vsds_plugin__"}
    code = compile(case_spec["plugin"], "<vsds-plugin>", "exec")
    exec(code, ns)  # noqa: S102


def run_case(case_spec):
    rec = {
        "cid": case_spec["cid"],
        "outcome": None,
        "exc": None,
        "ledger": [],
        "enum": 0,
        "dir_perm": 0,
        "set_iter": 0,
        "logs": [],
        "steps": 0,
        "reach": {},
        "tree": {},
        "digest": None,
        "wall": 0.0,
        "extra": {},
    }
    pert = case_spec.get("perturb") or {}
    ds = pert.get("dir_seed")
    STATE["dir_rng"] = random.Random(ds) if ds is not None else None
    STATE["dir_mode"] = pert.get("dir_mode")
    STATE["set_seed"] = pert.get("set_seed")
    STATE["steps"] = 0
    STATE["reach"] = {}
    STATE["budget"] = case_spec.get("step_budget")
    cwd = case_spec.get("cwd")
    if cwd:
        os.makedirs(cwd, exist_ok=True)
        os.chdir(cwd)
    t0 = time.time()
    STATE["case"] = rec
    try:
        try:
            if case_spec.get("pre"):
                # supplementary monitors a check attaches before the CLI runs (wrappers on internal names)
                try:
                    exec(compile(case_spec["pre"], "<vsds-pre>", "exec"), {"STATE": STATE, "rec": rec, "case": case_spec})  # noqa: S102
                except Exception as e:  # noqa: BLE001 - a monitor that cannot attach reports it, never fails the run
                    rec["extra"]["pre_error"] = repr(e)
            if case_spec.get("plugin"):
                _run_plugin(case_spec, rec)
            else:
                for _ in range(int(case_spec.get("repeat") or 1)):
                    _run_cli(case_spec, rec)
            rec["outcome"] = "ok"
        except SystemExit as e:
            rec["outcome"] = "systemexit"
            rec["exc"] = {"type": "SystemExit", "msg": str(e.code), "tool_function": None, "layer": "argparse"}
        except StepBudgetExceeded as e:
            rec["outcome"] = "budget"
            rec["exc"] = _exc_info(e)
        except BaseException as e:  # noqa: BLE001
            rec["outcome"] = "exception"
            rec["exc"] = _exc_info(e)
    finally:
        STATE["case"] = None
        STATE["budget"] = None
    rec["wall"] = round(time.time() - t0, 3)
    rec["steps"] = STATE["steps"]
    want = case_spec.get("reach")
    if want is None:
        rec["reach"] = {}
    elif want == "*":
        rec["reach"] = dict(STATE["reach"])
    else:
        rec["reach"] = {k: STATE["reach"].get(k, 0) for k in want}
    out = case_spec.get("out")
    if out and case_spec.get("collect", True):
        rec["tree"] = _read_tree(out)
        rec["digest"] = _digest(rec["tree"])
    return rec


def main():
    global TOOL_DIR
    job_path, res_path = sys.argv[1], sys.argv[2]
    with open(job_path, encoding="utf-8") as fh:
        job = json.load(fh)
    mon = {"guard": os.environ.get(GUARD, "")}
    monitors_on = os.environ.get(GUARD, "1") != "0"

    import safeds_stubgen

    TOOL_DIR = os.path.dirname(os.path.realpath(safeds_stubgen.__file__)) + os.sep
    mon["tool_dir"] = TOOL_DIR

    if monitors_on:
        sys.addaudithook(_audit)
        mon["M3"] = {"attached": True}
        os.scandir = _scandir
        os.listdir = _listdir
        mon["M4"] = {"attached": True}
        _install_set_injector(mon)
        root = logging.getLogger()
        root.addHandler(_LogCapture(level=logging.DEBUG))
        mon["M9"] = {"attached": True}
        if job.get("steps", "reach") not in (False, "off"):
            _install_step_monitor(mon, "all" if job.get("steps") in (True, "all") else "reach")
    for extra in job.get("sys_path", []):
        sys.path.insert(1, extra)

    results = []
    for case_spec in job["cases"]:
        results.append(run_case(case_spec))
    with open(res_path, "w", encoding="utf-8") as fh:
        json.dump({"monitors": mon, "results": results, "hashseed": os.environ.get("PYTHONHASHSEED")}, fh)


if __name__ == "__main__":
    main()
