#!/usr/bin/env python3
"""Runs each kept breaking change through the official path: `git -C /repo apply seeded/<id>/patch.diff`, the property's
own quick check against /repo, `git -C /repo checkout -- .` straight afterwards.  Nothing else may use /repo meanwhile.

usage: seed_official.py [<id> ...]      (default: every directory under /verif/seeded)
Writes the outcome into seeded/<id>/meta.json ("official_path") and prints one line per change.
"""
import json, os, subprocess, sys
HERE = os.path.dirname(os.path.dirname(os.path.abspath(__file__)))
ids = sys.argv[1:] or sorted(os.listdir(os.path.join(HERE, "seeded")))
env = dict(os.environ, VSDS_REPLAY_DIR="/tmp/vsds_official_replays", VSDS_EVIDENCE_DIR="/tmp/vsds_official_evidence")
bad = 0
for i in ids:
    d = os.path.join(HERE, "seeded", i)
    meta = json.load(open(os.path.join(d, "meta.json")))
    prop = meta["property"]
    if meta.get("superseded_by_fix"):
        print(f"{i:8s} {prop} superseded by a repair in /repo (kept for the record, not applied)", flush=True)
        continue
    assert subprocess.run(["git", "-C", "/repo", "status", "--porcelain"], capture_output=True, text=True).stdout.strip() == "", "/repo not clean"
    try:
        pf = os.path.join(d, "patch.diff")
        if subprocess.run(["git", "-C", "/repo", "apply", pf]).returncode != 0:
            # /repo has moved on since the change was written (later repairs): merge it, and keep the refreshed patch
            if subprocess.run(["git", "-C", "/repo", "apply", "--3way", pf]).returncode != 0:
                subprocess.run(["git", "-C", "/repo", "reset", "-q", "--hard", "HEAD"], check=True)
                print(f"{i:8s} {prop} PATCH DOES NOT APPLY TO THE CURRENT TREE", flush=True)
                bad += 1
                continue
            subprocess.run(["git", "-C", "/repo", "reset", "-q"], check=True)
            open(pf, "w").write(subprocess.run(["git", "-C", "/repo", "diff", "--", "src"], capture_output=True, text=True).stdout)
        p = subprocess.run([os.path.join(HERE, "check"), prop, "--tier", "quick"], capture_output=True, text=True, cwd=HERE, env=env)
    finally:
        subprocess.run(["git", "-C", "/repo", "reset", "-q", "--hard", "HEAD"], check=True)
    first = next((l for l in p.stdout.splitlines() if l.startswith("   - ")), "")[:300]
    vline = next((l for l in p.stdout.splitlines() if l.startswith("VIOLATION")), "")
    meta["official_path"] = {"check": prop, "rc": p.returncode, "violation_line": bool(vline), "first": first}
    json.dump(meta, open(os.path.join(d, "meta.json"), "w"), indent=1)
    ok = p.returncode == 1 and vline
    bad += not ok
    print(f"{i:8s} {prop} rc={p.returncode} {'REPORTED' if ok else 'NOT REPORTED'} {first[:150]}", flush=True)
print("not reported:", bad)
