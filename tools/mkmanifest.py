#!/usr/bin/env python3
"""Regenerates /verif/MANIFEST.json from the table below and validates it against the schema."""
import json, os, subprocess, sys

HERE = os.path.dirname(os.path.dirname(os.path.abspath(__file__)))
CHECKS = json.load(open(os.path.join(HERE, "tools", "checks.json")))
props = [json.loads(l) for l in open(os.path.join(HERE, "properties.jsonl"))]
ids = [p["id"] for p in props]
repo_fix = subprocess.run(["git", "-C", "/repo", "log", "--format=%h %s"], capture_output=True, text=True).stdout.splitlines()

checks = []
for pid in ids:
    c = CHECKS.get(pid)
    if not c or c.get("disabled"):
        continue
    checks.append({
        "property_id": pid,
        "quick_cmd": f"./check {pid} --tier quick",
        "thorough_cmd": f"./check {pid} --tier thorough",
        "evidence_file": f"evidence/{pid}.json",
        "replay_cmd_template": f"./check {pid} --replay {{path}}",
        "engine": "vsds",
        "level_claimed": {"category": "exploration", "text": c["level_text"], "design_ref": c.get("design_ref", f"DESIGN.md section 5 {pid}")},
        "level_note": c["level_note"],
        "technique": c["technique"],
    })
na = [{"property_id": pid, "reason": (CHECKS.get(pid) or {}).get("na_reason", "check not built yet in this round (runtime-monitoring check planned in DESIGN.md section 5)")}
      for pid in ids if pid not in {c["property_id"] for c in checks}]
m = {
    "version": 1,
    "setup_cmd": "./setup.sh",
    "hooks": {
        "guard": "SAFEDS_STUBGEN_VERIF",
        "enable": "no source hooks in /repo: all monitors attach from /verif/harness/boot.py inside the tool's process (audit hook, sys.monitoring, wrappers); SAFEDS_STUBGEN_VERIF=0 switches them off",
        "baseline_off_cmd": "cd /repo && SAFEDS_STUBGEN_VERIF=0 /venv/bin/python -m pytest -ra -q -p no:cacheprovider --timeout=900 --continue-on-collection-errors",
        "source_commits": [],
        "add_only": True,
    },
    "engines": [{"name": "vsds", "path": "harness/vsds", "serves_properties": [c["property_id"] for c in checks],
                 "kind_free_text": "runtime monitoring: generated workloads with ground truth -> real CLI in monitored subprocesses -> boundary oracles (independent stub recogniser, JSON, logs, exception origin, file-effect ledger) + perturbation injectors"}],
    "checks": checks,
    "not_applicable": na,
    "notes": "Repairs of genuine defects are unguarded 'fix:' commits in /repo, listed in known_findings.json under 'fixed'. Exit codes: 0 held, 1 VIOLATION, 2 INCONCLUSIVE.",
}
json.dump(m, open(os.path.join(HERE, "MANIFEST.json"), "w"), indent=1)
try:
    import jsonschema
    jsonschema.validate(m, json.load(open("/root/.vp/MANIFEST.schema.json")))
    print("MANIFEST valid:", len(checks), "checks,", len(na), "not_applicable")
except ImportError:
    print("jsonschema unavailable; wrote MANIFEST without validation")
