#!/usr/bin/env python3
"""Developer aid: run one check's workload and print EVERY violation (not deduplicated) with context.
usage: PYTHONPATH=/repo/src:/verif/harness /venv/bin/python tools/explore.py C11 [seed] [tier]"""
import json, sys, importlib, collections
sys.path.insert(0, "/verif/harness")
from vsds.core import Check, drive
pid = sys.argv[1].upper(); seed = int(sys.argv[2]) if len(sys.argv) > 2 else 0; tier = sys.argv[3] if len(sys.argv) > 3 else "quick"
mod = importlib.import_module(f"vsds.checks.{pid.lower()}")
import os; os.environ["VSDS_REPLAY_DIR"] = "/tmp/vsds_explore_replays"
chk = Check(pid, "probe", seed)
cases = mod.gen(tier, seed)
judge = mod.make_judge(chk)
pairs = drive(chk, cases, judge, per_proc=3)
by = collections.defaultdict(list)
for v, case, rec in chk.violations:
    by[case.cid].append((v, case, rec))
for cid, lst in by.items():
    case, rec = lst[0][1], lst[0][2]
    print("=" * 100); print(cid, case.opts)
    for k, t in case.files.items():
        if k.endswith("__init__.py") and t.strip(): print("   ", k, ":", t.replace("\n", " ; "))
    for v, _, _ in lst:
        print("  -", v.rule, "@", v.where, json.dumps(v.detail, default=str)[:400])
print(len(chk.violations), "violations in", len(by), "of", len(cases), "cases;", dict(chk.discarded), chk.inconclusive[:2])
json.dump([{"cid": c.cid, "files": c.files, "opts": c.opts, "viol": [(v.rule, v.where, v.detail) for v, cc, _ in chk.violations if cc.cid == c.cid], "tree": next((r["tree"] for cc, r in pairs if cc.cid == c.cid), None)} for c in cases if c.cid in by], open(f"/tmp/explore_{pid}.json", "w"), default=str)
