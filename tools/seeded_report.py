#!/usr/bin/env python3
"""Writes notes/seeded_results.md from /verif/seeded/*/meta.json."""
import glob, json, os
HERE = os.path.dirname(os.path.dirname(os.path.abspath(__file__)))
rows = []
for d in sorted(glob.glob(os.path.join(HERE, "seeded", "*"))):
    mp = os.path.join(d, "meta.json")
    if not os.path.exists(mp):
        continue
    m = json.load(open(mp))
    v = m.get("verification", {})
    checks = v.get("checks", {})
    caught = [c for c, r in checks.items() if r.get("rc") == 1]
    prop = m.get("property")
    first = (checks.get(prop) or {}).get("first", "").strip()[:140].replace("|", "/")
    rows.append(f"| {os.path.basename(d)} | {prop} | {str(m.get('summary', ''))[:230].replace('|', '/')} | {str(m.get('needs', ''))[:200].replace('|', '/')} | demo {'ok' if v.get('demo_ok') else 'NOT OK'}, tests {'ok' if v.get('tests_ok') else 'NOT OK'} | {', '.join(caught) or 'none'} | {first} | {m.get('history', '')} |")
out = ["# Independently written breaking changes (sub-agents saw only the property text)", "",
       "Each change was confirmed in its scratch worktree (demonstration passes without and fails with the change; the repository's test suite fails no additional test) before it was kept.", "",
       "| id | property | change | needs | confirmed | reported by | first violation line of the property's own check | history |", "|---|---|---|---|---|---|---|---|", *rows, ""]
open(os.path.join(HERE, "notes", "seeded_results.md"), "w").write("\n".join(out))
print(len(rows), "rows")
