#!/usr/bin/env python3
"""Regenerates the generated tables of DESIGN.md (between <!-- BEGIN:x --> / <!-- END:x --> markers) from
known_findings.json (repaired defects, recorded findings), seeded/*/meta.json (independently written breaking changes)
and notes/drill_results.json (hand-made mutants)."""
import glob, json, os, re
HERE = os.path.dirname(os.path.dirname(os.path.abspath(__file__)))
k = json.load(open(os.path.join(HERE, "known_findings.json")))


def esc(s):
    return str(s).replace("|", "/").replace("\n", " ")


def fixed_table():
    rows = ["| property | commit | what failed |", "|----------|--------|-------------|"]
    for line in k["fixed"]:
        m = re.match(r"fixed: property=(C\d+) ([0-9a-f]+) (.*)", line)
        rows.append(f"| {m.group(1)} | `{m.group(2)}` | {esc(m.group(3))} |")
    return "\n".join(rows)


def findings_table():
    rows = ["| id | property | generator features gated | what fails |", "|----|----------|--------------------------|------------|"]
    for f in k["findings"]:
        rows.append(f"| {f['id']} | {f['property']} | {', '.join('`' + x + '`' for x in f.get('feature', []))} | {esc(f['what'])} |")
    return "\n".join(rows)


def seeded_table():
    rows = ["| id | property | what the change needs to show | first run | reported now by |", "|----|----------|-------------------------------|-----------|-----------------|"]
    for d in sorted(glob.glob(os.path.join(HERE, "seeded", "*"))):
        mp = os.path.join(d, "meta.json")
        if not os.path.exists(mp):
            continue
        m = json.load(open(mp))
        v = m.get("verification", {})
        off = m.get("official_path", {})
        caught = sorted(c for c, r in v.get("checks", {}).items() if r.get("rc") == 1)
        if off.get("rc") == 1 and off.get("check") not in caught:
            caught.append(off["check"])
        hist = m.get("history", "")
        first = "missed" if hist.lower().startswith("missed") else ("widened first" if "widened before" in hist else "reported")
        now = ", ".join(caught) or "none"
        if m.get("superseded_by_fix"):
            now = "(superseded: the same mechanism was found in the unchanged tool and repaired)"
        rows.append(f"| {os.path.basename(d)} | {m.get('property')} | {esc(m.get('needs', ''))[:260]} | {first} | {now} |")
    return "\n".join(rows)


def mutants_table():
    p = os.path.join(HERE, "notes", "drill_results.json")
    if not os.path.exists(p):
        return "(run tools/drill.py)"
    res = json.load(open(p))
    by = {}
    for r in res:
        by.setdefault(r["property"], []).append(r)
    rows = ["| property | mutants | reported | not reported |", "|----------|---------|----------|--------------|"]
    for pid in sorted(by):
        rs = by[pid]
        miss = [r["id"] for r in rs if not r["caught"]]
        rows.append(f"| {pid} | {len(rs)} | {sum(1 for r in rs if r['caught'])} | {', '.join(miss) or '-'} |")
    return "\n".join(rows)


path = os.path.join(HERE, "DESIGN.md")
text = open(path).read()
for name, fn in (("fixed-table", fixed_table), ("findings-table", findings_table), ("seeded-table", seeded_table), ("mutants-table", mutants_table)):
    b, e = f"<!-- BEGIN:{name} -->", f"<!-- END:{name} -->"
    if b in text and e in text:
        i, j = text.index(b) + len(b), text.index(e)
        text = text[:i] + "\n" + fn() + "\n" + text[j:]
    else:
        print("marker missing:", name)
open(path, "w").write(text)
print("fixed", len(k["fixed"]), "findings", len(k["findings"]))
