#!/usr/bin/env python3
"""Regression anchor: the stub texts the tool generates for the repository's own test packages, compared
(content only, no syrupy) with the upstream snapshot files.  Usage: /venv/bin/python snapshot_anchor.py [--json]
Exit 0 if all compared snapshots are byte-identical."""
import json, os, sys, tempfile
sys.path.insert(0, os.path.join(os.environ.get("VSDS_REPO", "/repo"), "src"))
os.chdir(tempfile.mkdtemp(prefix="vsds_anchor_"))
from pathlib import Path
from safeds_stubgen.api_analyzer import TypeSourcePreference, TypeSourceWarning, get_api
from safeds_stubgen.docstring_parsing import DocstringStyle
from safeds_stubgen.stubs_generator import StubsStringGenerator, generate_stub_data

SNAP = Path("/repo/tests/safeds_stubgen/stubs_generator/__snapshots__/test_generate_stubs")
out = Path(tempfile.mkdtemp(prefix="vsds_anchor_out_"))
res = {"same": [], "diff": [], "missing": []}

def cmp(name, text):
    f = SNAP / name
    if not f.exists():
        res["missing"].append(name); return
    (res["same"] if f.read_text(encoding="utf-8") == text else res["diff"]).append(name)

api = get_api(Path("/repo/tests/data/various_modules_package"), is_test_run=True)
gen = StubsStringGenerator(api=api, convert_identifiers=True)
for sd in generate_stub_data(stubs_generator=gen, out_path=out):
    cmp(f"TestStubFileGeneration.test_stub_creation[{sd[1]}].sdsstub", sd[2])
for fn, style, pref, warn, idn in [
    ("full_docstring", DocstringStyle.PLAINTEXT, TypeSourcePreference.CODE, TypeSourceWarning.IGNORE, "full_docstring-PLAINTEXT"),
    ("googledoc", DocstringStyle.GOOGLE, TypeSourcePreference.CODE, TypeSourceWarning.IGNORE, "googledoc-GOOGLE"),
    ("numpydoc", DocstringStyle.NUMPYDOC, TypeSourcePreference.CODE, TypeSourceWarning.IGNORE, "numpydoc-NUMPYDOC"),
    ("plaintext", DocstringStyle.PLAINTEXT, TypeSourcePreference.CODE, TypeSourceWarning.IGNORE, "plaintext-PLAINTEXT"),
    ("restdoc", DocstringStyle.REST, TypeSourcePreference.CODE, TypeSourceWarning.IGNORE, "restdoc-REST"),
    ("docstring_vs_typehints", DocstringStyle.NUMPYDOC, TypeSourcePreference.CODE, TypeSourceWarning.IGNORE, "docstring_vs_typehints-CODE"),
    ("docstring_vs_typehints", DocstringStyle.NUMPYDOC, TypeSourcePreference.DOCSTRING, TypeSourceWarning.IGNORE, "docstring_vs_typehints-DOCSTRING"),
    ("docstring_vs_typehints", DocstringStyle.NUMPYDOC, TypeSourcePreference.CODE, TypeSourceWarning.WARN, "docstring_vs_typehints-THROW_WARNING"),
]:
    dapi = get_api(root=Path("/repo/tests/data/docstring_parser_package"), docstring_style=style, is_test_run=True, type_source_preference=pref, type_source_warning=warn)
    dgen = StubsStringGenerator(api=dapi, convert_identifiers=True)
    for sd in generate_stub_data(stubs_generator=dgen, out_path=out):
        if sd[1] == fn:
            cmp(f"test_stub_docstring_creation[{idn}].sdsstub", sd[2])
import shutil; shutil.rmtree(out, ignore_errors=True); shutil.rmtree(os.getcwd(), ignore_errors=True)
if "--json" in sys.argv:
    print(json.dumps(res))
else:
    print(f"snapshots identical: {len(res['same'])}; different: {res['diff']}; missing: {res['missing']}")
sys.exit(1 if res["diff"] else 0)
