#!/usr/bin/env python3
"""Confirms an independently written breaking change and runs the checks against it.

usage: seedcheck.py <ID> <worktree> [--all]
  1. in the worktree: demo passes without the change (git stash) and fails with it;
  2. the repository's test suite with the change: no test fails that does not fail on the unchanged tree;
  3. copies patch.diff / demo / meta.json to /verif/seeded/<ID>/;
  4. applies the patch to /repo, runs the property's own quick check (and with --all every quick check through
     VSDS_REPO=<worktree>, which leaves /repo alone), undoes the patch straight afterwards (git checkout -- .).
"""
import json, os, shutil, subprocess, sys, tempfile, xml.etree.ElementTree as ET
HERE = os.path.dirname(os.path.dirname(os.path.abspath(__file__)))
ID, WT = sys.argv[1], sys.argv[2]
ALL = "--all" in sys.argv
VIA_WT = "--via-worktree" in sys.argv
seed = os.path.join(WT, "seed")
demo = next((os.path.join(seed, n) for n in ("demo.py", "demo.sh") if os.path.exists(os.path.join(seed, n))), None)
assert demo, "no demo"
def run_demo():
    cmd = ["/venv/bin/python", demo] if demo.endswith(".py") else ["bash", demo]
    p = subprocess.run(cmd, capture_output=True, text=True, cwd=seed, env=dict(os.environ, PYTHONPATH=os.path.join(WT, "src")), timeout=900)
    return p.returncode, (p.stdout + p.stderr)[-400:]
def git(*a, cwd=WT): return subprocess.run(["git", *a], cwd=cwd, capture_output=True, text=True)
res = {"id": ID}
dirty = git("status", "--porcelain", "--", "src").stdout.strip()
assert dirty, "worktree has no source change"
# the stash is shared by all worktrees of a repository: revert / re-apply the saved patch instead
patch_file = os.path.join(seed, "patch.diff")
cur = git("diff", "--", "src").stdout
assert cur.strip(), "no source change"
open(f"/tmp/seedcheck_cur_{ID}.diff", "w").write(cur)
assert git("apply", "-R", f"/tmp/seedcheck_cur_{ID}.diff").returncode == 0
rc_clean, out_clean = run_demo()
assert git("apply", f"/tmp/seedcheck_cur_{ID}.diff").returncode == 0
rc_mut, out_mut = run_demo()
res["demo_without_change"] = rc_clean; res["demo_with_change"] = rc_mut
res["demo_ok"] = rc_clean == 0 and rc_mut != 0
xml = tempfile.mktemp(suffix=".xml")
subprocess.run(["/venv/bin/python", "-m", "pytest", "-q", "-p", "no:cacheprovider", "--timeout=900", "--continue-on-collection-errors", "-n", "8", f"--junitxml={xml}"], cwd=WT, env=dict(os.environ, PYTHONPATH=os.path.join(WT, "src")), stdout=subprocess.DEVNULL, stderr=subprocess.DEVNULL)
failing = set()
for tc in ET.parse(xml).iter("testcase"):
    if any(c.tag in ("failure", "error") for c in tc): failing.add(tc.get("classname") + "::" + tc.get("name"))
ref = set(open(os.path.join(HERE, "notes", "repo_failing_reference.txt")).read().split("\n")) - {""}
res["new_test_failures"] = sorted(failing - ref)
res["tests_ok"] = not res["new_test_failures"]
dst = os.path.join(HERE, "seeded", ID)
os.makedirs(dst, exist_ok=True)
patch = git("diff", "--", "src").stdout
open(os.path.join(dst, "patch.diff"), "w").write(patch)
shutil.copy(demo, os.path.join(dst, os.path.basename(demo)))
meta = json.load(open(os.path.join(seed, "meta.json"))) if os.path.exists(os.path.join(seed, "meta.json")) else {}
# run own check against /repo with the patch applied
prop = meta.get("property", ID.split("-")[0])
assert VIA_WT or subprocess.run(["git", "-C", "/repo", "status", "--porcelain"], capture_output=True, text=True).stdout.strip() == "", "/repo not clean"
env = dict(os.environ, VSDS_REPLAY_DIR="/tmp/vsds_seed_replays", VSDS_EVIDENCE_DIR="/tmp/vsds_seed_evidence")
caught = {}
if VIA_WT:
    # same code, but /repo stays untouched: the worktree (at /repo's HEAD + the change) is what the check runs against
    p = subprocess.run([os.path.join(HERE, "check"), prop, "--tier", "quick"], capture_output=True, text=True, cwd=HERE, env=dict(env, VSDS_REPO=WT))
    caught[prop] = {"rc": p.returncode, "first": next((l for l in p.stdout.splitlines() if l.startswith("   - ")), p.stdout.strip().splitlines()[-1] if p.stdout.strip() else "")[:300]}
else:
    try:
        subprocess.run(["git", "-C", "/repo", "apply", os.path.join(dst, "patch.diff")], check=True)
        p = subprocess.run([os.path.join(HERE, "check"), prop, "--tier", "quick"], capture_output=True, text=True, cwd=HERE, env=env)
        caught[prop] = {"rc": p.returncode, "first": next((l for l in p.stdout.splitlines() if l.startswith("   - ")), p.stdout.strip().splitlines()[-1] if p.stdout.strip() else "")[:300]}
    finally:
        subprocess.run(["git", "-C", "/repo", "checkout", "--", "."], check=True)
if ALL:
    env2 = dict(env, VSDS_REPO=WT)
    for c in [f"C{i:02d}" for i in range(1, 21)]:
        if c == prop: continue
        p = subprocess.run([os.path.join(HERE, "check"), c, "--tier", "quick"], capture_output=True, text=True, cwd=HERE, env=env2)
        caught[c] = {"rc": p.returncode, "first": next((l for l in p.stdout.splitlines() if l.startswith("   - ")), "")[:200]}
res["checks"] = caught
res["caught_by_own_check"] = caught[prop]["rc"] == 1
meta.update({"property": prop, "verification": res, "ran": f"seedcheck.py {ID} (demo both ways, full pytest with the change, ./check {prop} --tier quick on /repo with the patch applied{', all other quick checks via VSDS_REPO' if ALL else ''})"})
json.dump(meta, open(os.path.join(dst, "meta.json"), "w"), indent=1)
print(json.dumps(res, indent=1)[:3000])
