#!/usr/bin/env python3
"""Runs the repository's full pytest suite (guard off) and reports (a) that all 268 stable baseline tests pass,
(b) the set of failing tests compared with notes/repo_failing_reference.txt (tests that fail for reasons outside
the tool: syrupy snapshot file naming)."""
import json, os, subprocess, sys, tempfile, xml.etree.ElementTree as ET
HERE = os.path.dirname(os.path.dirname(os.path.abspath(__file__)))
xml = tempfile.mktemp(suffix=".xml")
env = dict(os.environ, SAFEDS_STUBGEN_VERIF="0")
subprocess.run(["/venv/bin/python", "-m", "pytest", "-q", "-p", "no:cacheprovider", "--timeout=900", "--continue-on-collection-errors", "-n", "8", f"--junitxml={xml}"], cwd="/repo", env=env, stdout=subprocess.DEVNULL, stderr=subprocess.DEVNULL)
res = {}
for tc in ET.parse(xml).iter("testcase"):
    res[tc.get("classname") + "::" + tc.get("name")] = not any(c.tag in ("failure", "error", "skipped") for c in tc)
os.unlink(xml)
stable = set(json.load(open("/root/.vp/BASELINE.json"))["stable_pass"])
bad = sorted(s for s in stable if not res.get(s))
failing = sorted(k for k, v in res.items() if not v)
ref_path = os.path.join(HERE, "notes", "repo_failing_reference.txt")
if "--save" in sys.argv:
    open(ref_path, "w").write("\n".join(failing) + "\n")
ref = set(open(ref_path).read().split("\n")) - {""} if os.path.exists(ref_path) else set()
print(f"stable baseline: {len(stable) - len(bad)}/{len(stable)} pass; total {sum(res.values())}/{len(res)} pass")
print("stable tests failing:", bad)
print("newly failing vs reference:", sorted(set(failing) - ref))
print("newly passing vs reference:", sorted(ref - set(failing)))
sys.exit(1 if bad or (set(failing) - ref) else 0)
