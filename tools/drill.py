#!/usr/bin/env python3
"""Mutation drill: applies hand-made mutants (DESIGN.md appendix D) to /repo's working tree one at a time,
runs the named check's quick tier, and restores the tree (git checkout) straight afterwards.

usage: drill.py [Cxx ...]   (no argument: all)     -- never leaves /repo modified.
"""
import json, os, subprocess, sys, time
HERE = os.path.dirname(os.path.dirname(os.path.abspath(__file__)))
MUT = json.load(open(os.path.join(HERE, "tools", "mutants.json")))
SRC = "/repo/src/safeds_stubgen/"

def restore():
    subprocess.run(["git", "-C", "/repo", "checkout", "--", "."], check=True)

def main():
    want = set(a.upper() for a in sys.argv[1:] if not a.startswith("-"))
    assert subprocess.run(["git", "-C", "/repo", "status", "--porcelain"], capture_output=True, text=True).stdout.strip() == "", "/repo not clean"
    rows = []
    try:
        for m in MUT:
            if want and m["check"] not in want:
                continue
            path = SRC + m["file"]
            text = open(path).read()
            if text.count(m["old"]) != 1:
                rows.append((m["check"], m["id"], "STALE (pattern occurs %d times)" % text.count(m["old"])))
                continue
            open(path, "w").write(text.replace(m["old"], m["new"]))
            t = time.time()
            p = subprocess.run([os.path.join(HERE, "check"), m["check"], "--tier", "quick"], capture_output=True, text=True, cwd=HERE, env=dict(os.environ, VSDS_REPLAY_DIR="/tmp/vsds_drill_replays", VSDS_EVIDENCE_DIR="/tmp/vsds_drill_evidence"))
            restore()
            caught = p.returncode == 1 and "VIOLATION property=" + m["check"] in p.stdout
            last = [l for l in p.stdout.splitlines() if l.startswith("   - ")][:1]
            rows.append((m["check"], m["id"], ("CAUGHT" if caught else f"MISSED rc={p.returncode}") + f" {time.time()-t:.0f}s " + (last[0][:160] if last else p.stdout.strip().splitlines()[-1][:200] if p.stdout.strip() else p.stderr[-200:])))
            print(*rows[-1], flush=True)
    finally:
        restore()
    if not want:
        res = [{"property": c, "id": i, "caught": t.startswith("CAUGHT"), "stale": t.startswith("STALE"), "line": t} for c, i, t in rows]
        json.dump(res, open(os.path.join(HERE, "notes", "drill_results.json"), "w"), indent=1)
        head = subprocess.run(["git", "-C", "/repo", "log", "--format=%h", "-1"], capture_output=True, text=True).stdout.strip()
        with open(os.path.join(HERE, "notes", "drill_results.md"), "w") as fh:
            fh.write(f"# Mutation drill (tools/drill.py) against /repo at {head}\n\nEach hand-made mutant of tools/mutants.json is applied to /repo's working tree, the named check's quick tier is run, and the tree is restored.\n\n| check | mutant | outcome |\n|---|---|---|\n")
            for c, i, t in rows:
                fh.write(f"| {c} | {i} | {t.replace('|', '/')[:260]} |\n")
    missed = [r for r in rows if not r[2].startswith("CAUGHT")]
    print(f"\n{len(rows) - len(missed)}/{len(rows)} mutants caught")
    for r in missed:
        print("  NOT CAUGHT:", *r)
    return 1 if missed else 0

sys.exit(main())
